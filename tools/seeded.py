#!/usr/bin/env python3
"""Seeded changes (written by independent sub-agents) -- import / verify / run the checks on them.

  tools/seeded.py import /tmp/wt/C20 C20     copy _seeded/* to /verif/seeded/C20-<name>/
  tools/seeded.py verify C20-<name>          demo passes on HEAD, fails with the patch; 46 tests pass with the patch
  tools/seeded.py run C20-<name> [tier]      apply to /repo, run ./check, undo; records the outcome in meta.json
"""
import json
import os
import shutil
import subprocess
import sys

HERE = os.path.dirname(os.path.dirname(os.path.abspath(__file__)))
SEEDED = os.path.join(HERE, "seeded")
TESTS = "/venv/bin/python -m pytest -q -p no:cacheprovider --timeout=900 --continue-on-collection-errors _unittests/ut_helpers _unittests/ut_metrics _unittests/ut_plotting _unittests/ut_sklapi"


def sh(cmd, cwd=None, timeout=1800):
    r = subprocess.run(cmd, shell=True, cwd=cwd, capture_output=True, text=True, timeout=timeout)
    return r.returncode, (r.stdout + r.stderr)


def patch_of(d):
    """the agent's patch, or its hand-rebased version when a later fix: commit touched the same lines"""
    r = os.path.join(d, "patch.rebased.diff")
    return r if os.path.exists(r) else os.path.join(d, "patch.diff")


def load_meta(d):
    p = os.path.join(d, "meta.json")
    try:
        return json.load(open(p))
    except Exception:
        return {}


def save_meta(d, m):
    json.dump(m, open(os.path.join(d, "meta.json"), "w"), indent=1)


def cmd_import(wt, pid):
    src = os.path.join(wt, "_seeded")
    for name in sorted(os.listdir(src)):
        dst = os.path.join(SEEDED, f"{pid}-{name}")
        if os.path.exists(dst):
            shutil.rmtree(dst)
        shutil.copytree(os.path.join(src, name), dst)
        m = load_meta(dst)
        m.setdefault("property", pid)
        m["origin"] = "independent sub-agent given only the property text and a scratch worktree"
        save_meta(dst, m)
        print("imported", dst)


def cmd_verify(sid):
    d = os.path.join(SEEDED, sid)
    wt = f"/tmp/sv/{sid}"
    sh(f"git -C /repo worktree remove --force {wt}")
    os.makedirs("/tmp/sv", exist_ok=True)
    rc, out = sh(f"git -C /repo worktree add -q --detach {wt} HEAD")
    assert rc == 0, out
    res = {}
    try:
        rc0, o0 = sh(f"/venv/bin/python {d}/demo.py {wt}", timeout=600)
        res["demo_clean_exit"] = rc0
        rca, oa = sh(f"git apply {patch_of(d)}", cwd=wt)
        res["apply"] = rca
        if rca == 0:
            rc1, o1 = sh(f"/venv/bin/python {d}/demo.py {wt}", timeout=600)
            res["demo_patched_exit"] = rc1
            res["demo_patched_tail"] = o1[-400:]
            rct, ot = sh(TESTS, cwd=wt)
            res["tests_tail"] = ot.strip().splitlines()[-1] if ot.strip() else ""
            res["tests_46_passed"] = "46 passed" in res["tests_tail"]
        else:
            res["apply_out"] = oa[-300:]
    finally:
        sh(f"git -C /repo worktree remove --force {wt}")
        shutil.rmtree(wt, ignore_errors=True)
    res["ok"] = bool(res.get("demo_clean_exit") == 0 and res.get("demo_patched_exit") == 1 and res.get("tests_46_passed"))
    m = load_meta(d)
    m["verified_by_me"] = res
    save_meta(d, m)
    print(sid, json.dumps(res)[:600])
    return res["ok"]


def cmd_run(sid, tier="quick", pid=None):
    d = os.path.join(SEEDED, sid)
    m = load_meta(d)
    pid = pid or m.get("property") or sid.split("-")[0]
    rc, out = sh("git -C /repo status --porcelain --untracked-files=no")
    assert out.strip() == "", "/repo not clean: " + out
    ev = os.path.join(HERE, "evidence", pid + ".json")
    ev_backup = open(ev).read() if os.path.exists(ev) else None
    rca, oa = sh(f"git -C /repo apply {patch_of(d)}")
    try:
        if rca != 0:
            print("patch does not apply:", oa[-300:])
            return None
        rc, out = sh(f"./check {pid} {tier}", cwd=HERE, timeout=7200)
    finally:
        sh("git -C /repo reset -q --hard HEAD")
        if ev_backup is not None:  # the evidence of a run on a seeded tree is not evidence
            open(ev, "w").write(ev_backup)
    lines = [l for l in out.splitlines() if l.startswith(("VIOLATION", "  obligation", "KNOWN", pid + " ", "ENGINE-ERROR"))]
    print(sid, tier, "exit", rc)
    for l in lines[:6]:
        print("   ", l[:300])
    m.setdefault("check_results", {})[f"{pid}:{tier}"] = dict(exit=rc, detected=(rc == 1), lines=[l[:300] for l in lines[:4]])
    save_meta(d, m)
    # replay files written while a seeded patch was applied are not kept
    shutil.rmtree(os.path.join(HERE, "replays", pid), ignore_errors=True)
    return rc


def cmd_prun(sid, tier="quick", pid=None):
    """same as run, on a scratch worktree (VERIF_REPO) with scratch outputs (VERIF_OUT): several can run at once"""
    d = os.path.join(SEEDED, sid)
    m = load_meta(d)
    pid = pid or m.get("property") or sid.split("-")[0]
    wt, outd = f"/var/tmp/verif-sw/{sid}", f"/var/tmp/verif-sw/{sid}.out"
    sh(f"git -C /repo worktree remove --force {wt}")
    shutil.rmtree(wt, ignore_errors=True)
    os.makedirs(os.path.join(outd, "evidence"), exist_ok=True)
    rc, out = sh(f"git -C /repo worktree add -q --detach {wt} HEAD")
    assert rc == 0, out
    try:
        rca, oa = sh(f"git apply {patch_of(d)}", cwd=wt)
        if rca != 0:
            print(sid, "patch does not apply:", oa[-300:])
            return None
        rc, out = sh(f"VERIF_REPO={wt} VERIF_OUT={outd} ./check {pid} {tier}", cwd=HERE, timeout=7200)
    finally:
        sh(f"git -C /repo worktree remove --force {wt}")
        shutil.rmtree(wt, ignore_errors=True)
        shutil.rmtree(outd, ignore_errors=True)
    lines = [l for l in out.splitlines() if l.startswith(("VIOLATION", "  obligation", "KNOWN", pid + " ", "ENGINE-ERROR"))]
    print(sid, tier, "exit", rc, flush=True)
    for l in lines[:4]:
        print("   ", l[:260], flush=True)
    m = load_meta(d)
    m.setdefault("check_results", {})[f"{pid}:{tier}"] = dict(exit=rc, detected=(rc == 1), lines=[l[:300] for l in lines[:4]])
    save_meta(d, m)
    return rc


if __name__ == "__main__":
    a = sys.argv[1:]
    if a[0] == "import":
        cmd_import(a[1], a[2])
    elif a[0] == "verify":
        sys.exit(0 if cmd_verify(a[1]) else 1)
    elif a[0] == "run":
        cmd_run(a[1], *(a[2:]))
    elif a[0] == "prun":
        cmd_prun(a[1], *(a[2:]))
    elif a[0] == "pall":
        # tools/seeded.py pall [prefix] [tier] [jobs]
        from concurrent.futures import ThreadPoolExecutor

        sids = [s_ for s_ in sorted(os.listdir(SEEDED)) if (len(a) < 2 or s_.startswith(a[1]))]
        tier = a[2] if len(a) > 2 else "quick"
        with ThreadPoolExecutor(int(a[3]) if len(a) > 3 else 3) as ex:
            res = list(ex.map(lambda s_: (s_, cmd_prun(s_, tier)), sids))
        missed = [s_ for s_, rc in res if rc != 1]
        print(f"{len(res) - len(missed)}/{len(res)} detected; not detected: {missed}")
    elif a[0] == "all":
        for sid in sorted(os.listdir(SEEDED)):
            if len(a) > 1 and not sid.startswith(a[1]):
                continue
            cmd_run(sid, a[2] if len(a) > 2 else "quick")
