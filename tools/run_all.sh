#!/bin/sh
# runs every registered check (tier = $1, default quick) on the current tree; prints one line per check
cd "$(dirname "$0")/.."
TIER="${1:-quick}"
for p in $(python3 -c "import json;print(' '.join(c['property_id'] for c in json.load(open('MANIFEST.json'))['checks']))"); do
  ./check "$p" "$TIER" 2>&1 | grep -v "^KNOWN-FINDING" | tail -1 | cut -c1-220
done
