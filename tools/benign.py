#!/usr/bin/env python3
"""Behaviour-preserving changes (written by independent sub-agents that saw only the property text) --
the checks must stay silent on them.

  tools/benign.py import /tmp/wtB/C07 C07     copy _benign/* to /verif/benign/C07-<name>/
  tools/benign.py run C07-<name> [tier]       scratch worktree + patch, run ./check, expect exit 0
  tools/benign.py all [prefix] [tier] [jobs]
"""
import json
import os
import shutil
import subprocess
import sys

HERE = os.path.dirname(os.path.dirname(os.path.abspath(__file__)))
BENIGN = os.path.join(HERE, "benign")


def sh(cmd, cwd=None, timeout=7200):
    r = subprocess.run(cmd, shell=True, cwd=cwd, capture_output=True, text=True, timeout=timeout)
    return r.returncode, (r.stdout + r.stderr)


def cmd_import(wt, pid):
    src = os.path.join(wt, "_benign")
    os.makedirs(BENIGN, exist_ok=True)
    for name in sorted(os.listdir(src)):
        dst = os.path.join(BENIGN, f"{pid}-{name}")
        shutil.rmtree(dst, ignore_errors=True)
        shutil.copytree(os.path.join(src, name), dst)
        p = os.path.join(dst, "meta.json")
        try:
            m = json.load(open(p))
        except Exception:
            m = {}
        m.setdefault("property", pid)
        m["origin"] = "independent sub-agent given only the property text and a scratch worktree"
        json.dump(m, open(p, "w"), indent=1)
        print("imported", dst)


def cmd_run(bid, tier="quick"):
    d = os.path.join(BENIGN, bid)
    m = json.load(open(os.path.join(d, "meta.json")))
    pid = m.get("property") or bid.split("-")[0]
    wt, outd = f"/var/tmp/verif-sw/b-{bid}", f"/var/tmp/verif-sw/b-{bid}.out"
    sh(f"git -C /repo worktree remove --force {wt}")
    shutil.rmtree(wt, ignore_errors=True)
    os.makedirs(os.path.join(outd, "evidence"), exist_ok=True)
    rc, out = sh(f"git -C /repo worktree add -q --detach {wt} HEAD")
    assert rc == 0, out
    try:
        rca, oa = sh(f"git apply {d}/patch.diff", cwd=wt)
        if rca != 0:
            print(bid, "patch does not apply:", oa[-200:], flush=True)
            m.setdefault("check_results", {})[f"{pid}:{tier}"] = dict(exit=None, note="patch does not apply on the current HEAD")
            json.dump(m, open(os.path.join(d, "meta.json"), "w"), indent=1)
            return None
        rc, out = sh(f"VERIF_REPO={wt} VERIF_OUT={outd} ./check {pid} {tier}", cwd=HERE)
    finally:
        sh(f"git -C /repo worktree remove --force {wt}")
        shutil.rmtree(wt, ignore_errors=True)
        shutil.rmtree(outd, ignore_errors=True)
    lines = [l for l in out.splitlines() if l.startswith(("VIOLATION", "  obligation", pid + " ", "ENGINE-ERROR"))]
    print(bid, tier, "exit", rc, flush=True)
    if rc != 0:
        for l in lines[:4]:
            print("   ", l[:300], flush=True)
    m.setdefault("check_results", {})[f"{pid}:{tier}"] = dict(exit=rc, silent=(rc == 0), lines=[l[:300] for l in lines[:4]] if rc else [])
    json.dump(m, open(os.path.join(d, "meta.json"), "w"), indent=1)
    return rc


if __name__ == "__main__":
    a = sys.argv[1:]
    if a[0] == "import":
        cmd_import(a[1], a[2])
    elif a[0] == "run":
        cmd_run(a[1], *(a[2:]))
    elif a[0] == "all":
        from concurrent.futures import ThreadPoolExecutor

        ids = [b for b in sorted(os.listdir(BENIGN)) if len(a) < 2 or b.startswith(a[1])]
        tier = a[2] if len(a) > 2 else "quick"
        with ThreadPoolExecutor(int(a[3]) if len(a) > 3 else 3) as ex:
            res = list(ex.map(lambda b: (b, cmd_run(b, tier)), ids))
        loud = [(b, rc) for b, rc in res if rc != 0]
        print(f"{len(res) - len(loud)}/{len(res)} silent; not silent: {loud}")
