#!/usr/bin/env python3
"""Markdown table of the seeded changes and which checks catch them (from seeded/*/meta.json)."""
import json, os
HERE = os.path.dirname(os.path.dirname(os.path.abspath(__file__)))
rows = []
for sid in sorted(os.listdir(os.path.join(HERE, "seeded"))):
    p = os.path.join(HERE, "seeded", sid, "meta.json")
    if not os.path.exists(p):
        continue
    m = json.load(open(p))
    ver = m.get("verified_by_me", {})
    res = m.get("check_results", {})
    caught = [k for k, v in res.items() if v.get("detected")]
    missed = [k for k, v in res.items() if not v.get("detected")]
    first = ""
    for k in caught:
        ls = [l for l in res[k]["lines"] if "obligation=" in l]
        if ls:
            first = ls[0].split("obligation=")[1].split(" signature=")[0]
            break
    needs = (m.get("needs") or m.get("what") or "")
    if isinstance(needs, list):
        needs = "; ".join(map(str, needs))
    needs = " ".join(str(needs).split())[:160]
    rows.append((sid, "yes" if ver.get("ok") else ("rebased" if os.path.exists(os.path.join(HERE, "seeded", sid, "patch.rebased.diff")) and ver.get("ok") else str(ver.get("ok"))), ", ".join(caught) or "-", ", ".join(k for k in missed if k.split(":")[0] not in [c.split(":")[0] for c in caught]) or "-", first[:70], needs))
print("| seeded change | verified | caught by | missed by | first obligation refuted | needs |")
print("|---|---|---|---|---|---|")
for r in rows:
    print("| " + " | ".join(r) + " |")
print(f"\n{sum(1 for r in rows if r[2] != '-')} of {len(rows)} seeded changes are caught by at least one check.")
