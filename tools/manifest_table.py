check(
    "C11",
    "bounded symbolic execution (SX) of the real transform on symbolic real matrices; one z3 NRA query per output cell against scikit-learn's powers_ table",
    "For every (n_features<=4/6, degree<=4/5, interaction_only, include_bias, kind) the real fit/transform/get_feature_names_out run on a symbolic 2xn real matrix; z3 shows each output cell equals the monomial given by PolynomialFeatures.powers_ for ALL real inputs (polynomial identity), n_output_features_ and names match. Bounded in n and degree only.",
    "Reals not floats (association order of float products outside the claim); PolynomialFeatures.powers_ is the trusted oracle; dense input only.",
    "DESIGN.md 3.C11",
)
