check(
    "C11",
    "bounded symbolic execution (SX) of the real transform on symbolic real matrices; one z3 NRA query per output cell against scikit-learn's powers_ table",
    "For every (n_features<=4/6, degree<=4/5, interaction_only, include_bias, kind) the real fit/transform/get_feature_names_out run on a symbolic 2xn real matrix; z3 shows each output cell equals the monomial given by PolynomialFeatures.powers_ for ALL real inputs (polynomial identity), n_output_features_ and names match. Bounded in n and degree only.",
    "Reals not floats (association order of float products outside the claim); PolynomialFeatures.powers_ is the trusted oracle; dense input only.",
    "DESIGN.md 3.C11",
)
check(
    "C20",
    "symbolic-length symbolic execution (SXL: write-log arrays, LIA+UF in z3) of the real build_ts_X_y/_base_fit_predict for EVERY series length; bounded SX (z3 LRA) for ts_mape",
    "The real build_ts_X_y and its caller run once per (past<=4/6, delay2<=5/7, ncol<=2, weights, same_rows) with the series length a symbolic unbounded integer; z3 shows for an arbitrary row that each lag, exogenous, target, weight and padding cell is the one the property names, and that no NumPy shape error can occur. ts_mape is executed on symbolic series of length <=5/6 over every NaN pattern: non-negative, =1 for the naive forecast, no exception.",
    "delay1=1, use_all_past=False (as the property says). Array model of vf/sxl.py (slice clamping, assignment shape rule) trusted, cross-checked concretely against the real code per configuration. Reals not floats in ts_mape.",
    "DESIGN.md 3.C20",
)
