check(
    "C11",
    "bounded symbolic execution (SX) of the real transform on symbolic real matrices; one z3 NRA query per output cell against scikit-learn's powers_ table",
    "For every (n_features<=4/6, degree<=4/5, interaction_only, include_bias, kind) the real fit/transform/get_feature_names_out run on a symbolic 2xn real matrix (and on 4100/9000 rows tiled from two symbolic rows for n=2, degree=2); z3 shows each output cell equals the monomial given by PolynomialFeatures.powers_ for ALL real inputs (polynomial identity), n_output_features_ and names match. Bounded in n and degree only.",
    "Reals not floats (association order of float products outside the claim); PolynomialFeatures.powers_ is the trusted oracle; dense input only.",
    "DESIGN.md 3.C11",
)
check(
    "C20",
    "symbolic-length symbolic execution (SXL: write-log arrays, LIA+UF in z3) of the real build_ts_X_y/_base_fit_predict for EVERY series length; bounded SX (z3 LRA) for ts_mape",
    "The real build_ts_X_y and its caller run once per (past<=4/6, delay2<=5/7, ncol<=2, weights, same_rows) with the series length a symbolic unbounded integer; z3 shows for an arbitrary row that each lag, exogenous, target, weight and padding cell is the one the property names, and that no NumPy shape error can occur. ts_mape is executed on symbolic series of length <=5/6 over every NaN pattern: non-negative, =1 for the naive forecast, no exception.",
    "delay1=1, use_all_past=False (as the property says). Array model of vf/sxl.py (slice clamping, assignment shape rule) trusted, cross-checked concretely against the real code per configuration. Reals not floats in ts_mape.",
    "DESIGN.md 3.C20",
)
check(
    "C12",
    "bounded symbolic execution (SX, z3 LRA) of the real digitize2tree and tree_structure utilities over symbolic bins / thresholds / query points, scikit-learn's Tree replaced by a validated node-table model",
    "digitize2tree runs on symbolic strictly monotonic bins (length <=8/16, both directions) and a symbolic x: on every root-to-leaf path z3 shows the leaf value equals numpy.digitize(x,bins,right=True). The structure utilities run on every tree shape with <=3/4 splits x feature assignments with symbolic thresholds: x in box(tree_node_range(leaf)) <=> apply(x)=leaf, predict_leaves = apply (also after the same estimator object is refitted), tree_leave_index = childless nodes.",
    "Tree/tree_add_node/DecisionTreeRegressor are a node-table model (left iff x<=threshold), validated every run against the compiled extension and the real sklearn Tree. Inputs representable in float32. Bounded in bins length and tree size.",
    "DESIGN.md 3.C12",
)
check(
    "C05",
    "bounded symbolic execution (SX, z3 QF_NRA) of the real score/_epsilon/fit loop with symbolic data, quantile, delta, weights and an arbitrary-answer least-squares stub",
    "For symbolic y, predictions, weights and q in (0,1): score == 2 x (weighted) mean pinball loss (q=0.5: MAE). For the real IRLS loop with the inner least-squares solver answering an ARBITRARY beta: the weights passed to the next solve satisfy W'*max(|e|,delta) == w*c_q(sign e), i.e. W'e^2 == w*rho_q(e) (each iteration minimises the majoriser of the same pinball loss), integer weights == repeated rows for that step, inner solver built with fit_intercept=False and the CURRENT positive (also after set_params + refit), design matrix [X,1], coef_/intercept_ from the last beta, intercept_=0 without intercept, n_iter_<=max_iter-1, caller arrays untouched. Bounds: n<=3/4 rows, 2 iterations.",
    "Least squares itself (LAPACK/NNLS), IRLS convergence and the 'fraction q below the line' consequence are outside the claim. Reals not floats. sklearn predict / mean_absolute_error stubbed by their documented contracts.",
    "DESIGN.md 3.C05",
)
check(
    "C13",
    "bounded symbolic execution (SX, z3 LRA+UF): log/exp as uninterpreted functions with ground inverse-pair axioms; random permutations as symbolic Distinct ints realised exhaustively; recording stub estimators with symbolic outputs",
    "For every name in available_fcts() and symbolic targets in the domain: reciprocal(transform(y)) == y, NaN stays NaN, X untouched; TransformedTargetRegressor2 trains its regressor on f(y) and predicts f^-1(g(x)). For every permutation of <=3/4 label codes (all explored) and 7/8 label sets: permutation round trip, classifier trained on the permuted target, predict returns original labels, probability column j is the j-th sorted label's and classes_[j] names it -- also after the same instance is refitted on another label set.",
    "Float round-off of exp(log y) outside the claim; closest=True search outside; inner estimators are stubs; label sets concrete. String labels are a listed known finding.",
    "DESIGN.md 3.C13",
)
check(
    "C17",
    "symbolic execution (SX) of the real fit with a SYMBOLIC, UNBOUNDED row count and symbolic alpha (z3 LIA/LRA over randint's recorded arguments); bounded SX for the aggregation methods",
    "For every n >= 1 and alpha > 0 (one query each): randint is called with low=0, high=n (exclusive bound: every row eligible, none out of range) and size within 1/2 of alpha*n; X, y, w are indexed with the same drawn vector; each of the n_estimators clones is fitted exactly once. For m<=3/5 members, <=2/3 query rows (float and integer query dtype): predict_all columns are the members' predictions, predict their mean, predict_sorted rows non-decreasing rearrangements.",
    "RNG uniformity is NumPy's; joblib replaced by a sequential map (thread schedules outside); base regressor is a recording stub; float32 query batches outside (rounding).",
    "DESIGN.md 3.C17",
)
check(
    "C14",
    "differential bounded symbolic execution (SX): the override and scikit-learn's own _word_ngrams on symbolic token/stop-word assignments; CrossHair (z3 strings) for the tuple-vs-joined-string order lemma",
    "For every document length <=5/7, n-gram range up to 3/5, every assignment of 2/3 words to positions and every stop-word subset (symbolic Bools; stop_words=None separately) the override's n-grams are flat token tuples whose space-joins equal scikit-learn's sequence, for both Traceable classes; CrossHair confirms over all paths that tuple order equals joined-string order for tokens with characters > ' ' (<=2 tokens of <=2 chars), so sorted vocabulary columns coincide.",
    "The matrix/tf-idf computation is scikit-learn's and is reached only through the stated reduction (sequence + sorted vocabulary); counterexamples are replayed end to end on real vectorizers. Default tokenizer only.",
    "DESIGN.md 3.C14",
)
check(
    "C01",
    "bounded symbolic execution (SX, z3 LIA) of the hand-written get_params/set_params code with symbolic parameter values and a symbolic (realised) choice of the key being set; real sklearn.base.clone; concrete-mode replay of the same scenario",
    "For SkBase, SkBaseTransformLearner (5 method options), SkBaseTransformStacking (1..13 members, wrapped and unwrapped), ClassifierAfterKMeans and ApproximateNMFPredictor: get_params reports the configuration; for EVERY advertised key and every integer value, set_params returns the estimator, changes exactly that key (nested/indexed keys included) and transform follows; set_params(**other.get_params(deep=True)) gives equal parameters and identical outputs; clone gives distinct unfitted objects with equal parameters and outputs. SkBase also takes keys it was not built with from another instance. Behaviour round trip for two scikit-learn style estimators: after set_params(**other.get_params(deep=True)) KMeansL1L2 runs the implementation of its current norm and a QuantileLinearRegression fitted before builds its inner solver from the current parameters.",
    "scikit-learn's generic BaseEstimator protocol is trusted; inner models are parameter-holding look-alikes with polynomial outputs. Other estimators that inherit BaseEstimator's protocol unchanged are outside this check (their configuration-after-construction behaviour is checked with their own property: C05, C06, C10, C11, C19, C20). Two interface-level defects (ANMF keyword sets, clone of ClassifierAfterKMeans with a non-default estimator) are listed known findings.",
    "DESIGN.md 3.C01",
)
check(
    "C19",
    "path-complete bounded symbolic execution (SX): every cell of the training table and of the table to transform is a symbolic choice realised by z3 (all-models enumeration), real pandas frames, independent oracle; concrete-mode replay",
    "For every pair (training table 2-3 rows x 2 categorical columns, table to transform 1-2 rows) over {two seen categories, missing, unseen}, string and integer categories, and every single/skip_errors/remove option: one indicator named column=value per categorical cell and no other, rank among sorted training categories with single=True, nothing for missing values, numeric column / index / row order / input frame unchanged, an unseen (or removed) category raises, or with skip_errors sets nothing in its block and changes no other cell.",
    "The values are only used as dictionary keys, so the solver's share is the exhaustive enumeration of tables, not arithmetic. columns= passed explicitly (pandas 3 dtype inference outside). Bounded table sizes.",
    "DESIGN.md 3.C19",
)
check(
    "C07",
    "bounded symbolic execution (SX, z3 LIA/LRA) end to end on tiny shapes, plus inductive one-step checks on AST slices of the real loops from arbitrary symbolic states (all n)",
    "`distance`: the sliced body of the assignment loop, from ANY state satisfying the stated invariant with symbolic limit/leftover/counters and an arbitrary preference order, labels the point, preserves the invariant, and the invariant at the end forces sizes floor/ceil(n/k) -- every n, every ordering (k<=3/4). `gain`: quota lemma leftclose<=1 for symbolic cluster counts (all n, k<=3/4), and one step of the main loop from an arbitrary bookkeeping state keeps counters = histogram of labels and closes every moved point (n<=3/4, k=3). Both strategies and both _p variants end to end on a fully symbolic distance matrix for (n,k)=(2,2) (+(3,2) thorough) over every ordering, tie, draw and initial labelling. The real ConstraintKMeans.predict on that matrix: balanced -> sizes, not balanced -> exactly KMeans.predict's nearest centre. _randomize_index (n<=4/5, every starting order, tie pattern and draw) leaves a permutation of the points, which is what the inductive step assumes about the processing order.",
    "Distances are an arbitrary non-negative matrix (geometry abstracted; x**2 and divisions over-approximated in the end-to-end layer); centres/inertia/KMeans are scikit-learn's; gain's main loop is not proven to reach its quotas (listed known finding for n mod k >= 2). Counterexamples are replayed through ConstraintKMeans.fit/predict on real points.",
    "DESIGN.md 3.C07",
)
check(
    "C09",
    "translation (CY2PY: Cython's parser -> Python, validated every run against the compiled extension) + bounded symbolic execution (SX, z3 NRA) of the lowered criteria and of the real Python leaf-regression code",
    "For every (start,pos,end) triple, n<=4/5, listed sample orders and weight settings: node value = weighted mean, node/children impurities = weighted mean squared residual of the constant fit over exactly the node's / children's rows (simple and fast criteria, as polynomial identities in symbolic y), proxy and impurity_improvement formulas, children weights, update/reset == fresh init; linear criterion (unit weights): the LAPACK driver receives exactly the node's rows and targets and is one whose contract covers rank-deficient designs (dgelss/dgelsd/dgelsy; dgels refutes this), impurity = mean squared residual of the returned beta over those rows, 0 when rows <= coefficients. Python side: each leaf's regression sees exactly its rows, predict(row) = [row,1].beta(leaf(row)), and criterion='simple' after 'mselin' on the same instance uses the tree's prediction.",
    "LAPACK's driver answers an arbitrary beta; that it answers the least-squares fit also for rank-deficient designs is checked on the compiled code on four concrete designs per run (floating point: outside the solver's claim); scikit-learn's splitter (max_depth/min_samples_leaf) not encoded; fully symbolic weights only for node value and children weights (impurity identities decided on rational non-uniform weight grids); reals not floats.",
    "DESIGN.md 3.C09",
)
check(
    "C08",
    "bounded symbolic execution (SX, z3 LRA+UF) of the real fit/dispatch code over every routing of rows to buckets (symbolic choices realised), recording stubs with uninterpreted outputs; concrete-mode replay of the same scenario",
    "For 3-4 training rows, 1-2 query rows, 2-3 buckets (+ an unseen cell), tree and discretiser binners, weights, regressor and classifier, n_jobs in {None,2,3}, task order in order/reversed, every assignment of rows to buckets and every shuffle: one local model per non-empty bucket (mapping_ a bijection), each trained on exactly its bucket's rows with their own targets and weights (classifier: plus exactly one borrowed row per missing class), transform_bins = bucket id or -1, predict / predict_proba rows = the bucket model's (fallback model for -1), batch == single rows, labels in classes_, an integer random_state never falls back to an unseeded generator.",
    "Binner and local models are stubs (their own computations are scikit-learn's); joblib is a sequential map in two orders -- real thread schedules are not modelled; decision_function not covered.",
    "DESIGN.md 3.C08",
)
check(
    "C10",
    "bounded symbolic execution (SX, z3 LRA) of the real tree construction and traversals with one symbolic probability per (node, row); independent oracle traversal; concrete-mode replay",
    "For 3/4 training rows (+1 fresh query row), three label pairs in any order, max_depth 1..3/4, min_samples_split/leaf settings, fit_improve_algo auto/none, and EVERY way the rows can fall on either side of every node (including probabilities exactly on the threshold and exactly 0.5): predict_proba is the terminal node's pair and sums to one, predict = classes_[p1>=0.5], decision_path marks exactly the root-to-terminal path, node indices distinct and < n_nodes_, get_leaves_index = sorted indices of nodes lacking a child (also after a refit of the same instance), depth <= max_depth, every node trained on exactly the rows routed to it with the binary target, batch == single row.",
    "Node classifier is a stub (not a LinearClassifierMixin): the intercept_sort branches of fit_improve, gamma and p1p2 are outside the claim; sample weights not covered.",
    "DESIGN.md 3.C10",
)
check(
    "C15",
    "bounded symbolic execution (SX, z3 LRA/NRA) of the real wrapper code with recording stub models whose fitted state and outputs are symbolic functions of what they were trained on; concrete-mode replay",
    "SkBaseTransformLearner.transform equals the chosen method's output as a 2-D array for 5 method options and 1-2 rows, and fit passes (X, y, **kw) through exactly once; SkBaseTransformStacking.transform is the column concatenation in member order for 1-3 members; TransferTransformer over copy_estimator x trainable x four inner-fit signatures x method (incl. automatic): output = the wrapped estimator's, fit never trains when not trainable, the original object is never modified with copy_estimator (also when trainable), and a second fit after the original was retrained copies its current state.",
    "Wrapped models are stubs (affine fitted state, polynomial outputs); real scikit-learn models are outside. 1-2 rows, <= 3 members.",
    "DESIGN.md 3.C15",
)
check(
    "C18",
    "bounded symbolic execution (SX, z3 NRA+UF) of non_linear_correlations (array and frame branches) with arbitrary symbolic test-fold predictions, and of comparable_metric/r2_score_comparable with an uninterpreted metric and uninterpreted log/exp",
    "For (variables, rows, draws) up to (2,4,2)/(3,4,1) and minmax on/off: the result is square with one row/column per variable, every entry (and min/max) lies in [0,1] whatever the learner predicts, min <= mean <= max entrywise, the frame result equals the array result term by term and keeps its labels, the diagonal is 1 for the identity learner, the input cells are not written. r2_score_comparable(y,p,tr=f,inv_tr=g) hands exactly f(y), g(p) and the keyword arguments to r2_score for every pair among None/'log'/'exp'/callables, raises ValueError iff both are None and TypeError for non-callables.",
    "scale/train_test_split/learner/r2_score are stubs; numpy.var is over-approximated by an arbitrary non-negative real unless it is a number; the DataFrame branch runs on a minimal frame model; float round-off outside.",
    "DESIGN.md 3.C18",
)
check(
    "C06",
    "bounded symbolic execution (SX, z3 LRA) of the real L1 Lloyd loop, initialisation, M-step, E-step glue, best-of-n_init, predict and transform on a symbolic data matrix with symbolic random draws; SX model of scikit-learn's Manhattan argmin validated against the real function; concrete-mode replay on real scikit-learn",
    "For (n,d,k,max_iter) in {(3,1,2,2),(3,2,2,2),(2,1,2,2),(3,1,1,2)} (+(4,1,2,2),(3,1,3,2),(4,1,3,2) thorough), 'random' init over every permutation and array init over every choice of rows, tol 0 or symbolic, data with at least k distinct rows (ties and duplicates included): no exception, every label is a Manhattan-nearest centre OF THE RETURNED centres, inertia is the sum of those distances, every centre coordinate is a number inside the data range, n_iter <= max_iter; after KMeansL1L2.fit (n_init=2): the same, predict(X_train) = labels_, transform = Manhattan distances, hyper-parameters unchanged. norm='L2': fit/predict/transform hand the caller's arguments to KMeans and return its result (+ one concrete comparison with KMeans).",
    "k-means++ seeding, sample weights, sparse input and float32 rounding are outside; scikit-learn's distance functions are an SX model (validated); equality with KMeans beyond delegation is scikit-learn's.",
    "DESIGN.md 3.C06",
)
check(
    "C02",
    "bounded symbolic execution (SX, z3 LIA/LRA) with a symbolic fault schedule: every collaborator call site raises iff its symbolic Bool is true; symbolic hyper-parameters; concrete-mode replay of the same scenario",
    "For ConstraintKMeans.fit (symbolic max_iter in [1,1000], kmeans0 on/off, both strategies), PiecewiseTreeRegressor.fit (three criteria), PiecewiseRegressor.fit and IntervalRegressor.fit (each of 3 local models/members failing or not), QuantileLinearRegression.fit (each of 2 inner solves failing or not) and score, TransformedTargetRegressor2/Classifier2, PredictableTSNE and KMeansL1L2: on EVERY path, failing or not, get_params(deep) is what it was, the caller's X/y/sample_weight cells are untouched, the estimator parameter objects are never fitted (clones are), a normal fit returns self, and after a failed fit a fault-free fit hands the parent class what a fresh clone would; score twice agrees and leaves float64 weights intact; predict leaves parameters and data intact; with a symbolic fit_intercept the caller's own X object only reaches QuantileLinearRegression's inner solver together with copy_X=True.",
    "Collaborators are stubs raising on their fault flag (real triggers such as NaN input are represented by them); estimators not listed are outside; rows 2-8.",
    "DESIGN.md 3.C02",
)
check(
    "C03",
    "bounded symbolic execution (SX) with self-composition: refit-vs-fresh-clone pairs compared inside one scenario; random draws symbolic with provenance tracking (global stream vs seeded RandomState), confirmed semantically by replay under different NumPy global seeds",
    "Refit == fresh fit for PiecewiseRegressor (buckets, routing, training rows of each local model), PermutationReciprocalTransformer, CategoriesToIntegers (columns and values), ClassifierAfterKMeans, ExtendedFeatures, IntervalRegressor, PredictableTSNE (the perplexity clamp of one fit does not leak into the next: perplexity in {2,3,5,30}, 3..6 then 3..8 rows) over pairs of training sets of different sizes / layouts / label sets / columns (every choice explored). Seed discipline: with an integer random_state ConstraintKMeans (fit with kmeans0 on/off, both strategies, balanced predict), PiecewiseClassifier and KMeansL1L2 make no draw from NumPy's global stream or an unseeded generator, for every outcome of the draws.",
    "Provenance of draws is a sufficient condition for independence from the global seed; estimators whose randomness lives inside scikit-learn (TSNE, MLP, KMeans L2) are outside; stubs of C08/C13/C17 reused; small shapes.",
    "DESIGN.md 3.C03",
)
check(
    "C04",
    "bounded symbolic execution (SX, z3 LRA+UF) of the real dispatch code on a 3-row symbolic batch against all its permutations, single rows, a sub-batch and repeated calls; inner models uninterpreted row-wise functions; concrete pickle round trips",
    "For PiecewiseRegressor.predict, PiecewiseClassifier.predict_proba, transform_bins (every routing incl. a bucket unseen at training time), DecisionTreeLogisticRegression.predict_proba/decision_path, KMeansL1L2 (L1) predict/transform, ClassifierAfterKMeans, IntervalRegressor predict_all/predict/predict_sorted, SkBaseTransformLearner.transform (4 methods) and PiecewiseTreeRegressor's leaf regressions: the output of a row is the same in every order of the batch, alone, in a sub-batch and on a repeated call. clone_with_fitted_parameters gives identical outputs, does not follow a later retrain, and a second clone after the retrain has the new state. A frozen TransferTransformer (copy, not trainable) is row-wise pure and neither it nor its clone_with_fitted_parameters copy follows the source estimator when its owner retrains it. Really fitted estimators (8 of them, incl. compiled criteria) give identical outputs after a pickle round trip.",
    "Inner models are row-wise pure by construction (stubs); pickle is exercised concretely, not symbolically; 3-row batches; ConstraintKMeans' balanced predictions are batch dependent by design and excluded.",
    "DESIGN.md 3.C04",
)
check(
    "C16",
    "path-complete bounded exploration (SX): the pipeline is decoded from a symbolic shape code realised by z3 (all-models enumeration of the structure space), real scikit-learn containers, independent ground-truth tree, DOT read by a small parser; concrete-mode replay",
    "For every pipeline in the bound (top-level Pipeline of 1-2 steps + optional final classifier/regressor; steps = transformer, nested Pipeline, FeatureUnion, or first-step ColumnTransformer with 1-2 branches incl. nested pipelines and passthrough, 4 column selections, remainder drop/passthrough; <=3/4 leaf transformers; depth <=3) and each data schema (DataFrame, ndarray, list of names): enumerate_pipeline_models yields every nested estimator (each passthrough occurrence included) exactly once, parents first, distinct coordinates of length depth+1, with the branch columns; pipeline2str has one line per model indented by indent*depth (indent 3, 2, 5); alter_pipeline_for_debugging leaves every output of the fitted pipeline unchanged and each step records its last input/output with consecutive steps chaining, the final classifier recording each of predict / predict_proba / decision_function; pipeline2dot is well-formed DOT with declared endpoints and ports, every leaf step once, every input column, acyclic, final outputs reachable from sch0.",
    "The solver's share is the enumeration of structures (no arithmetic). Leaf estimators are tagged stubs; third-party containers (azureml, sklearn-pandas) and TransformedTargetRegressor are outside; wider/deeper pipelines are outside the bound.",
    "DESIGN.md 3.C16",
)


# claims added while the checks were strengthened against the seeded rounds 3 and 4 (DESIGN.md section 3,
# "Additions made for the third / fourth round"): appended to the level text of each check
EXTRA = {
    "C02": " Also: the binner parameter of a piecewise estimator and the default regressor of TransformedTargetRegressor2(regressor=None) are never trained / stored into the parameter; a caller's float64 sample_weight given to KMeansL1L2 is untouched; a second fault point inside the per-leaf regressions of PiecewiseTreeRegressor.",
    "C03": " Also: DecisionTreeLogisticRegression fitted twice trains every node classifier once and never its estimator parameter; PiecewiseTreeRegressor's leaf regressions follow a second tree with as many leaves under other node ids.",
    "C04": " Also: two symbolic rows at the ends of a 600-row batch (transform_bins) and inside a 12-row batch (KMeansL1L2.predict, ties included) give what they give alone; a ConstraintKMeans with symbolic learned cluster weights and its clone_with_fitted_parameters copy answer the same transform/score.",
    "C05": " Also: score on a column target at q=0.5; integer-typed weights (multiplicities) in the repetition lemma; the step lemma on an estimator built with the defaults and configured through set_params.",
    "C01": " ConstraintKMeans(init=array, n_init=n) reports and clones what it was given.",
    "C06": " Two symbolic rows at the end of a 1030-row batch (predict, transform) equal the rows alone. Also: caller-supplied centres anywhere (max_iter 1-2, symbolic tolerance; range clause for the centres that own a point); with norm='L2' KMeans.fit finds on the object exactly the constructor's parameters (symbolic k, n_init, max_iter, tol, seed) and get_params reports them.",
    "C07": " Also: n_iter_ <= max_iter through the real fit loop with KMeans.fit as its contract and arbitrary inertia per iteration (max_iter <= 5/9), every association of fit with quota n//k and leftover n-k*quota whatever the initial labels; balanced predictions on a batch of SYMBOLIC size (k <= n <= 100000): one association over all rows with that quota.",
    "C08": " The fallback model is a clone of the estimator parameter too; a classifier's label is its bucket model's predict. Also: a real KBinsDiscretizer subclass as binner (documented routing rule on symbols, validated against the parent class): a symbolic row, exactly on an edge included, is predicted by the model of the cell the binner puts it in.",
    "C09": " Also: the least-squares driver must be given its documented workspace; a zero weight inside the range (C division semantics); leaf regressions after a refit on a tree with other node ids; checked on the compiled code: rank-deficient leaves and leaves of 2-5 rows.",
    "C10": " Also: an integer-typed query matrix, a label pair of unequal-length strings, a node classifier that also has a decision_function with arbitrary values (nothing may be routed by it).",
    "C11": " Also: caller-supplied column names that contain one another; a flag changed by set_params followed by a refit on the same width.",
    "C12": " Also: trees numbered level by level (best-first builder); the compiled tree against numpy.digitize at x = NaN and with uint8/int32/float32 edges.",
    "C13": " Also: the transformer given as an object is cloned, never fitted; sample_weight (constant or varying) reaches the inner classifier / regressor together with the transformed target.",
    "C14": " Also: binary=True; an object that still carries the vocabulary_ of a previous fit; set_params(ngram_range) on a used object.",
    "C15": " Also: set_params(model=new) alone then fit/transform; stacking fitted with sample_weight; a fitted composite estimator (state in its parts) behind a frozen TransferTransformer; models that update their arrays in place.",
    "C16": " Also: enumerate_pipeline_models over 7x7 ColumnTransformer column selections (scalar 0, empty list, names...); the caller refills the same array/frame in place and calls again: instrumented pipeline == never-instrumented twin.",
    "C17": " Also: after the members are replaced as a new fit does, the same batch object is answered by the new members; a 1030-row batch with symbolic last rows; n_jobs in {2,3} at prediction time.",
    "C18": " Also: every (i, j, draw) is learnt by its own fresh clone and the model given is never trained; an integer-typed table; 4 draws.",
    "C19": " Also: falsy categories ('' and 0); skip_errors set through set_params; an object fitted and used on another table before; a table to transform with permuted columns.",
    "C20": " The feature and target tables are allocated with the series' dtype (dtype provenance tokens). Also: a model object that framed another series with another past before (set_params in between); if the code under test takes len() of the series the claim degrades to lengths up to min+12 and says so.",
}
for _pid, _txt in EXTRA.items():
    if _pid in CHECKS:
        _t = CHECKS[_pid]
        CHECKS[_pid] = (_t[0], _t[1] + _txt, _t[2], _t[3])
