#!/usr/bin/env python3
"""Regenerates MANIFEST.json from the table below (keeps it valid at all times)."""
import json
import os

HERE = os.path.dirname(os.path.dirname(os.path.abspath(__file__)))

# id -> (technique, level text, level note, design ref)
CHECKS = {}
NA = {}


def check(pid, technique, text, note, ref):
    CHECKS[pid] = (technique, text, note, ref)


def na(pid, reason):
    NA[pid] = reason


exec(open(os.path.join(HERE, "tools", "manifest_table.py")).read())

props = [json.loads(l)["id"] for l in open(os.path.join(HERE, "properties.jsonl"))]
checks = []
for pid in props:
    if pid in CHECKS:
        tech, text, note, ref = CHECKS[pid]
        checks.append(
            dict(
                property_id=pid,
                quick_cmd=f"./check {pid} quick",
                thorough_cmd=f"./check {pid} thorough",
                evidence_file=f"/verif/evidence/{pid}.json",
                replay_cmd_template=f"./check {pid} --replay {{path}}",
                engine="SX",
                level_claimed=dict(category="model_checking", text=text, design_ref=ref),
                level_note=note,
                technique=tech,
            )
        )
not_app = [dict(property_id=p, reason=NA.get(p, "check not built yet (work in progress); see DESIGN.md section 3")) for p in props if p not in CHECKS]
man = dict(
    version=1,
    setup_cmd="sh ./setup.sh",
    hooks=dict(
        guard="MLINSIGHTS_VERIF",
        enable="no source hook: stubs are injected through module globals by the harnesses; ./check exports MLINSIGHTS_VERIF=1 for uniformity",
        baseline_off_cmd="cd /repo && /venv/bin/python -m pytest -ra -q -p no:cacheprovider --timeout=900 --continue-on-collection-errors",
        source_commits=[],
        add_only=True,
    ),
    engines=[
        dict(name="SX", path="vf/sx.py", serves_properties=sorted(CHECKS), kind_free_text="symbolic shim executor: real Python functions on NumPy object arrays of z3-backed scalars, path forking under solver control, obligations discharged by z3"),
        dict(name="SXL", path="vf/sxl.py", serves_properties=[p for p in ("C20", "C17") if p in CHECKS], kind_free_text="SX with symbolic array lengths (write-log arrays, LIA+UF): index arithmetic for every length"),
        dict(name="CrossHair", path="vf/ch.py", serves_properties=[p for p in ("C01", "C14", "C19") if p in CHECKS], kind_free_text="crosshair-tool 0.0.110 (z3) on generated PEP316 harnesses for str/int/list code"),
    ],
    checks=checks,
    notes="Solver-based checking of the real code; every verdict is bounded (bounds in each evidence file). Exit 3 = engine error, never a verdict.",
    not_applicable=not_app,
)
with open(os.path.join(HERE, "MANIFEST.json"), "w") as f:
    json.dump(man, f, indent=1)
print("checks:", [c["property_id"] for c in checks], "not_applicable:", [n["property_id"] for n in not_app])
