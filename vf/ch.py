"""CrossHair driver: runs ``crosshair check --report_all`` on a generated harness file, one
process per file under a hard timeout, and maps the verdict lines.

  'Confirmed over all paths.'          -> confirmed (holds for every input within the pre: bounds)
  'error: false when calling f(args)'  -> counterexample (args text returned; to be replayed)
  'Not confirmed.' / 'Unable to meet precondition.' / timeout / anything else -> inconclusive
"""
import os
import re
import subprocess
import sys
import time

HERE = os.path.dirname(os.path.dirname(os.path.abspath(__file__)))
CACHE = os.path.join(HERE, ".cache", "ch")

_LINE = re.compile(r"^(?P<file>.*?):(?P<line>\d+): (?P<kind>info|error): (?P<msg>.*)$")


def run(source, name, per_condition_timeout=60, hard_timeout=None, extra_path=()):
    """-> dict line_number -> (verdict, message); verdict in confirmed/counterexample/inconclusive"""
    os.makedirs(CACHE, exist_ok=True)
    path = os.path.join(CACHE, name + ".py")
    with open(path, "w") as f:
        f.write(source)
    env = dict(os.environ)
    env["PYTHONPATH"] = os.pathsep.join([HERE, *extra_path, env.get("PYTHONPATH", "")])
    hard = hard_timeout or (per_condition_timeout * 4 + 60)
    t0 = time.time()
    try:
        r = subprocess.run(
            [sys.executable, "-m", "crosshair", "check", "--report_all", "--per_condition_timeout", str(per_condition_timeout), path],
            capture_output=True, text=True, timeout=hard, env=env, cwd=CACHE,
        )
        out = r.stdout + r.stderr
    except subprocess.TimeoutExpired as e:
        out = (e.stdout or b"").decode() if isinstance(e.stdout, bytes) else (e.stdout or "")
        out += "\nHARD TIMEOUT"
    res = {}
    for line in out.splitlines():
        m = _LINE.match(line)
        if not m:
            continue
        msg = m.group("msg")
        ln = int(m.group("line"))
        if msg.startswith("Confirmed over all paths"):
            res[ln] = ("confirmed", msg)
        elif m.group("kind") == "error" and ("false when calling" in msg or "when calling" in msg):
            res[ln] = ("counterexample", msg)
        else:
            res[ln] = ("inconclusive", msg)
    return dict(results=res, raw=out[-2000:], wall=time.time() - t0, path=path)


def line_of(source, marker):
    for i, l in enumerate(source.splitlines(), 1):
        if marker in l:
            return i
    raise KeyError(marker)
