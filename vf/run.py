"""./check <ID> [quick|thorough] [--replay <path>]"""
import importlib
import json
import os
import sys

from . import harness, sx


def main(argv):
    import warnings

    warnings.simplefilter("ignore")  # NumPy/scikit-learn runtime warnings of the code under test are not verdicts
    if not argv:
        print(__doc__)
        return 2
    pid = argv[0].upper()
    tier = os.environ.get("VERIF_TIER", "quick")
    replay = None
    rest = argv[1:]
    i = 0
    while i < len(rest):
        a = rest[i]
        if a in ("quick", "thorough"):
            tier = a
        elif a == "--replay":
            replay = rest[i + 1]
            i += 1
        i += 1
    seed = int(os.environ.get("VERIF_SEED", "0") or 0)
    mod = importlib.import_module(f"vf.props.{pid.lower()}")
    if replay:
        with open(replay) as f:
            rec = json.load(f)
        ok, observed = mod.replay(sx.unjson(rec["config"]), sx.unjson(rec["inputs"]), rec["label"])
        print(json.dumps(dict(reproduced=bool(ok), observed=sx.jsonable(observed)), indent=1, default=str))
        if ok:
            print(f"VIOLATION property={pid} replay={replay}")
            return 1
        return 0
    if tier == "thorough":
        import shutil

        d = os.path.join(harness.HERE, ".cache", "smt", pid)
        shutil.rmtree(d, ignore_errors=True)
        os.environ["VERIF_DUMP_SMT"] = d
    ctx = harness.Ctx(pid, tier, seed)
    rep = harness.Report(ctx)
    try:
        mod.run(ctx, rep)
    except sx.SXError as e:
        rep.error(f"SXError: {e}")
    except Exception as e:  # harness bug: never a verdict
        import traceback

        rep.error(f"harness exception {type(e).__name__}: {str(e)[:300]} :: {traceback.format_exc()[-700:]}")
    return harness.finish(rep)


if __name__ == "__main__":
    sys.exit(main(sys.argv[1:]))
