"""Slices a statement range (or a loop body) out of a real function of /repo, regenerated from
the current source on every run, and turns it into a callable over an explicit state -- so that
ONE step can be executed from an arbitrary (symbolic) pre-state: the inductive-step harness.

The slice is located by source-text markers (ast.unparse prefixes); if a marker no longer
matches, SliceError is raised: a refactoring can never be silently mis-sliced.
"""
import ast
import inspect
import textwrap


class SliceError(Exception):
    pass


def _find(stmts, marker, start=0):
    for i in range(start, len(stmts)):
        if ast.unparse(stmts[i]).strip().startswith(marker):
            return i
    raise SliceError(f"marker not found: {marker!r}")


def function_ast(func):
    src = textwrap.dedent(inspect.getsource(func))
    tree = ast.parse(src)
    fd = tree.body[0]
    if not isinstance(fd, (ast.FunctionDef,)):
        raise SliceError("not a function")
    return fd


def make_callable(stmts, params, name, glob, returns=None):
    """def name(params): <stmts>; return locals()"""
    body = list(stmts)
    body.append(ast.Return(value=ast.Call(func=ast.Name(id="locals", ctx=ast.Load()), args=[], keywords=[])))
    fd = ast.FunctionDef(
        name=name,
        args=ast.arguments(posonlyargs=[], args=[ast.arg(arg=p) for p in params], kwonlyargs=[], kw_defaults=[], defaults=[]),
        body=body,
        decorator_list=[],
        type_params=[],
    )
    mod = ast.Module(body=[fd], type_ignores=[])
    ast.fix_missing_locations(mod)
    ns = {}
    exec(compile(mod, f"<slice {name}>", "exec"), glob, ns)
    return ns[name]


def slice_range(func, first_marker, last_marker_exclusive, params, name=None):
    """top-level statements of func from the one starting with first_marker up to (excluding)
    the one starting with last_marker_exclusive"""
    fd = function_ast(func)
    a = _find(fd.body, first_marker)
    b = _find(fd.body, last_marker_exclusive, a + 1)
    return make_callable(fd.body[a:b], params, name or func.__name__ + "_slice", func.__globals__), [ast.unparse(s).splitlines()[0] for s in fd.body[a:b]]


def _replace_continue(stmts):
    """a loop body run once: `continue` / `break` end the step"""

    class T(ast.NodeTransformer):
        def visit_For(self, node):
            return node  # inner loops keep their own continue/break

        def visit_While(self, node):
            return node

        def visit_Continue(self, node):
            return ast.copy_location(ast.Return(value=ast.Call(func=ast.Name(id="locals", ctx=ast.Load()), args=[], keywords=[])), node)

        def visit_Break(self, node):
            return ast.copy_location(ast.Return(value=ast.Call(func=ast.Name(id="locals", ctx=ast.Load()), args=[], keywords=[])), node)

    return [T().visit(s) for s in stmts]


def slice_loop_body(func, loop_marker, params, name=None, nested_in=None):
    """body of the top-level `for` statement starting with loop_marker (optionally nested inside the
    top-level statement starting with nested_in), as a one-step function"""
    fd = function_ast(func)
    body = fd.body
    if nested_in:
        body = body[_find(body, nested_in)].body
    loop = body[_find(body, loop_marker)]
    if not isinstance(loop, ast.For):
        raise SliceError("marker is not a for loop")
    tgt = ast.unparse(loop.target)
    stmts = _replace_continue(loop.body)
    return make_callable(stmts, params, name or func.__name__ + "_step", func.__globals__), tgt, [ast.unparse(s).splitlines()[0] for s in loop.body]
