"""Common plumbing for the property checks: parallel map over configurations, reports,
known findings, replay files, evidence files, exit codes.

exit 0  all obligations discharged (KNOWN-FINDING lines for listed findings)
exit 1  VIOLATION property=<id> replay=<path>   (reproduced on the real code, not listed)
exit 3  engine error (solver unknown/timeout, translator refusal, a counterexample that does
        not reproduce, failed vacuity twin).  Never used to hide a violation.
"""
import hashlib
import json
import multiprocessing
import os
import sys
import time
import traceback

from . import loader, sx

HERE = os.path.dirname(os.path.dirname(os.path.abspath(__file__)))
# VERIF_OUT: evidence and replay files of a run on a scratch tree (VERIF_REPO) go elsewhere -- they are not evidence
OUT = os.environ.get("VERIF_OUT") or HERE
EVIDENCE_DIR = os.path.join(OUT, "evidence")
REPLAY_DIR = os.path.join(OUT, "replays")
KNOWN = os.path.join(HERE, "known_findings.json")

LEVEL = "model_checking"


class patched:
    """with patched(module, name=value, ...): module globals replaced (stubs), restored afterwards;
    a global the module no longer has is added and removed again (refactorings must not break us)"""

    _MISSING = object()

    def __init__(self, mod, **kw):
        self.mod, self.kw = mod, kw

    def __enter__(self):
        self.old = {k: getattr(self.mod, k, self._MISSING) for k in self.kw}
        for k, v in self.kw.items():
            setattr(self.mod, k, v)
        return self

    def __exit__(self, *a):
        for k, v in self.old.items():
            if v is self._MISSING:
                delattr(self.mod, k)
            else:
                setattr(self.mod, k, v)
        return False


class Ctx:
    def __init__(self, pid, tier, seed):
        self.pid = pid
        self.tier = tier
        self.seed = seed
        self.quick = tier == "quick"


class Violation(dict):
    """label, signature, config, inputs, observed, reproduced"""


def violation(label, signature, config, inputs, observed, reproduced):
    return dict(
        label=label,
        signature=signature,
        config=sx.jsonable(config),
        inputs=sx.jsonable(inputs),
        observed=sx.jsonable(observed),
        reproduced=bool(reproduced),
    )


def _worker(args):
    modname, fname, cfg = args
    import importlib

    t0 = time.time()
    try:
        mod = importlib.import_module(modname)
        out = getattr(mod, fname)(cfg)
        out.setdefault("violations", [])
        out.setdefault("errors", [])
        out.setdefault("validated", 0)
        out["wall"] = time.time() - t0
        out["cfg"] = sx.jsonable(cfg)
        return out
    except BaseException as e:  # engine errors included
        return dict(
            stats=sx.Stats().as_dict(),
            violations=[],
            validated=0,
            errors=[f"{type(e).__name__}: {str(e)[:300]} @ {sx.jsonable(cfg)} :: {_where()}"],
            wall=time.time() - t0,
            cfg=sx.jsonable(cfg),
        )


def _where():
    """innermost frames of the active exception, one line"""
    tb = traceback.extract_tb(sys.exc_info()[2])
    return " <- ".join(f"{os.path.basename(f.filename)}:{f.lineno}:{f.name}" for f in reversed(tb[-4:]))


def pmap(modname, fname, cfgs, procs=None, chunksize=1):
    """Runs mod.fname(cfg) for every cfg in a fork pool; returns list of result dicts."""
    procs = procs or min(16, max(1, len(cfgs)))
    if os.environ.get("VERIF_SERIAL") or procs == 1 or len(cfgs) <= 1:
        return [_worker((modname, fname, c)) for c in cfgs]
    import concurrent.futures as cf

    ctx = multiprocessing.get_context("fork")
    out = []
    budget = float(os.environ.get("VERIF_CONFIG_TIMEOUT", "3600"))
    with cf.ProcessPoolExecutor(max_workers=procs, mp_context=ctx) as ex:
        futs = {ex.submit(_worker, (modname, fname, c)): c for c in cfgs}
        try:
            for f in cf.as_completed(futs, timeout=budget):
                try:
                    out.append(f.result())
                except BaseException as e:  # a worker died (e.g. the real code crashed the interpreter)
                    out.append(dict(stats=sx.Stats().as_dict(), violations=[], validated=0, wall=0, cfg=sx.jsonable(futs[f]),
                                    errors=[f"worker died: {type(e).__name__}: {str(e)[:200]} @ {sx.jsonable(futs[f])}"]))
        except cf.TimeoutError:
            for f, c in futs.items():
                if not f.done():
                    out.append(dict(stats=sx.Stats().as_dict(), violations=[], validated=0, wall=budget, cfg=sx.jsonable(c),
                                    errors=[f"configuration timed out after {budget}s: {sx.jsonable(c)}"]))
            for p in list(getattr(ex, "_processes", {}).values()):
                p.kill()
    return out


class Report:
    def __init__(self, ctx):
        self.ctx = ctx
        self.t0 = time.time()
        self.stats = sx.Stats()
        self.violations = []
        self.errors = []
        self.functions = []
        self.bounds = {}
        self.assumptions = []
        self.outside = []
        self.validated = 0
        self.configs = 0
        self.layers = {}
        self.extra_samples = []
        self.exhaustive = True
        self.vacuity = []
        self.engine = "SX"
        self.second_solver = None

    def add_functions(self, modname, names):
        info = loader.functions_sha(modname)
        for n in names:
            self.functions.append(f"mlinsights.{modname}.{n} [{info['file']}@{info['sha256']}]")

    def absorb(self, results, layer=None):
        for r in results:
            st = sx.Stats.from_dict(r["stats"])
            self.stats.merge(st)
            self.violations.extend(r.get("violations", []))
            self.errors.extend(r.get("errors", []))
            self.validated += r.get("validated", 0)
            for note in r.get("notes", []) or []:
                note = note if note.startswith("DEGRADED") else "DEGRADED: " + note
                if note not in self.assumptions:
                    self.assumptions.append(note)
            self.configs += 1
            if layer:
                L = self.layers.setdefault(layer, dict(configs=0, paths=0, obligations=0, discharged=0, queries=0, solver_s=0.0, wall_s=0.0))
                L["configs"] += 1
                L["paths"] += st.paths
                L["obligations"] += st.obligations
                L["discharged"] += st.discharged
                L["queries"] += st.queries
                L["solver_s"] = round(L["solver_s"] + st.solver_s, 3)
                L["wall_s"] = round(L["wall_s"] + r.get("wall", 0), 2)
            for v in r.get("vacuity", []):
                self.vacuity.append(v)

    def error(self, msg):
        self.errors.append(msg)


def load_known():
    if not os.path.exists(KNOWN):
        return {"findings": [], "fixed": []}
    with open(KNOWN) as f:
        return json.load(f)


def second_solver(rep):
    """thorough tier: the sampled SMT-LIB2 queries are decided again by /usr/bin/z3 (4.8.12) and cvc5"""
    import glob
    import subprocess

    d = os.environ.get("VERIF_DUMP_SMT")
    if not d or not os.path.isdir(d):
        return
    files = sorted(glob.glob(os.path.join(d, "*.smt2")))[:12]
    out = dict(files=len(files), z3_4_8_12=dict(unsat=0, unknown=0, sat=0, error=0), cvc5=dict(unsat=0, unknown=0, sat=0, error=0))
    for f in files:
        for name, cmd in (("z3_4_8_12", ["/usr/bin/z3", "-T:20", f]), ("cvc5", ["cvc5", "--tlimit=20000", f])):
            try:
                r = subprocess.run(cmd, capture_output=True, text=True, timeout=40)
                txt = (r.stdout + r.stderr).strip()
                first = txt.splitlines()[0].strip() if txt else ""
                if "(error" in txt or first not in ("sat", "unsat", "unknown", "timeout"):
                    out[name]["error" if "(error" in txt else "unknown"] += 1
                elif first == "unsat":
                    out[name]["unsat"] += 1
                elif first == "sat":
                    out[name]["sat"] += 1
                    rep.errors.append(f"second solver {name} answers sat where z3 5.1 answered unsat: {os.path.basename(f)}")
                else:
                    out[name]["unknown"] += 1
            except Exception:
                out[name]["unknown"] += 1
    out["note"] = "unknown/error = inconclusive (unsupported construct or 20 s limit), never counted as agreement; a 'sat' is an engine error"
    rep.second_solver = out


def finish(rep):
    """Writes the evidence file, prints the verdict lines, returns the exit code."""
    ctx = rep.ctx
    if ctx.tier == "thorough":
        second_solver(rep)
    known = load_known()
    known_sigs = {(k["property"], k["signature"]): k for k in known.get("findings", [])}
    new, listed = [], []
    seen = set()
    for v in rep.violations:
        if not v["reproduced"]:
            rep.errors.append(
                f"counterexample for {v['label']} did not reproduce on the real code (encoding/stub bug): {json.dumps(v)[:600]}"
            )
            continue
        key = (ctx.pid, v["signature"])
        if key in seen:
            continue
        seen.add(key)
        (listed if key in known_sigs else new).append(v)
    code = 0
    out_viol = []
    for v in listed:
        print(f"KNOWN-FINDING: property={ctx.pid} {v['signature']}: {known_sigs[(ctx.pid, v['signature'])].get('what', '')}")
        out_viol.append(dict(kind="known-finding", signature=v["signature"], label=v["label"], inputs=v["inputs"], observed=v["observed"]))
    for v in new:
        os.makedirs(os.path.join(REPLAY_DIR, ctx.pid), exist_ok=True)
        blob = json.dumps(dict(property=ctx.pid, **v), sort_keys=True, indent=1)
        path = os.path.join(REPLAY_DIR, ctx.pid, hashlib.sha256(blob.encode()).hexdigest()[:12] + ".json")
        with open(path, "w") as f:
            f.write(blob)
        print(f"VIOLATION property={ctx.pid} replay={path}")
        print(f"  obligation={v['label']} signature={v['signature']} observed={json.dumps(v['observed'])[:400]}")
        out_viol.append(dict(kind="violation", signature=v["signature"], label=v["label"], inputs=v["inputs"], observed=v["observed"], replay=path))
        code = 1
    for a in rep.assumptions:
        if str(a).startswith("DEGRADED"):
            print(f"NOTE: property={ctx.pid} {a}"[:400])
    if rep.errors:
        for e in rep.errors[:4]:
            print("ENGINE-ERROR:", str(e)[:700], file=sys.stderr)
        if len(rep.errors) > 4:
            print(f"ENGINE-ERROR: ... and {len(rep.errors) - 4} more", file=sys.stderr)
        if code == 0:
            code = 3
    st = rep.stats
    if st.obligations == 0 and code == 0:
        print("ENGINE-ERROR: no obligation was generated", file=sys.stderr)
        code = 3
    samples = list(st.samples[:3]) + rep.extra_samples[:3]
    if not samples:
        samples = [{"note": "no discharged non-trivial obligation to show"}]
    nontrivial = st.discharged - st.trivial
    # paths beyond the first of each configuration exist only because the solver found both sides of a
    # data-dependent branch feasible: each is a distinct solver-decided case even when the final
    # obligation on it is evaluated concretely
    extra_paths = max(0, st.paths - rep.configs)
    cov = dict(
        evaluations=max(1, st.queries),
        distinct_nontrivial=max(0, nontrivial) + extra_paths,
        rule=(
            "each evaluation is one SMT query (branch feasibility or final obligation); an obligation is counted "
            "non-trivial when its goal does not simplify syntactically to true, i.e. the solver had to refute "
            "(path condition AND NOT goal); distinct = one per (configuration, path, obligation label), plus one per "
            "additional path the solver proved feasible (obligations evaluated concretely on a fully realised path are "
            "counted through their path, not as non-trivial obligations)"
        ),
        samples=samples,
        states=max(1, st.paths),
        transitions=max(1, st.branch_queries),
        traces_validated_against_impl=rep.validated,
        obligations=st.obligations,
        discharged=st.discharged,
        checker_cmd=f"./check {ctx.pid} {ctx.tier}",
        trusted_base=["z3 5.1.0 (python wheel)", "CPython 3.12 / NumPy object-array semantics", "the stubs listed under assumptions"],
        exhaustive=bool(rep.exhaustive),
        explanation=(
            "bounded symbolic execution of the real functions (regenerated from /repo's working tree on this run); "
            "the verdict for every obligation is the SMT solver's over all values of the symbols within the bounds"
        ),
        engine=rep.engine,
        functions_encoded=rep.functions,
        bounds=rep.bounds,
        outside_the_claim=rep.outside,
        configurations=rep.configs,
        paths=st.paths,
        solver_queries=st.queries,
        solver_seconds=round(st.solver_s, 3),
        path_exceptions=st.exceptions,
        obligation_labels=sorted(st.labels),
        layers=rep.layers,
        vacuity_twins=rep.vacuity,
        engine_errors=rep.errors[:10],
    )
    if rep.second_solver:
        cov["second_solver"] = rep.second_solver
    ev = dict(
        property_id=ctx.pid,
        tier=ctx.tier,
        seed=ctx.seed,
        level=LEVEL,
        coverage=cov,
        assumptions=rep.assumptions,
        wall_s=round(time.time() - rep.t0, 2),
        violations=sum(1 for v in out_viol if v['kind'] == 'violation'),
        findings=out_viol,
    )
    os.makedirs(EVIDENCE_DIR, exist_ok=True)
    with open(os.path.join(EVIDENCE_DIR, ctx.pid + ".json"), "w") as f:
        json.dump(ev, f, indent=1, sort_keys=True, default=str)
    print(
        f"{ctx.pid} {ctx.tier}: configs={rep.configs} paths={st.paths} obligations={st.obligations} "
        f"discharged={st.discharged} (non-trivial {nontrivial}) queries={st.queries} solver={st.solver_s:.1f}s "
        f"validated={rep.validated} wall={time.time() - rep.t0:.1f}s exit={code}"
    )
    return code


# ---------------------------------------------------------------------------------------------
# One scenario, two modes.  A scenario is a function scenario(C) written against this small
# interface; SymC runs it under SX (values are symbols, checks are proof obligations), ConcC runs
# the SAME code on concrete values taken from a counterexample against the real library -- that is
# the replay.  A check that fails in concrete mode means the violation reproduces.


class SymC:
    symbolic = True

    def __init__(self, e):
        self.e = e

    def int(self, name, lo=None, hi=None):
        return self.e.int(name, lo, hi)

    def real(self, name):
        return self.e.real(name)

    def bool(self, name):
        return self.e.bool(name)

    def choice(self, name, n):
        """an index in range(n): symbolic, realised (every value explored)"""
        return self.e.realize(self.e.int(name, 0, n - 1))

    def assume(self, c):
        self.e.assume(c)

    def eq(self, a, b, label, detail=None):
        if sx.is_sym(a) or sx.is_sym(b):
            return self.e.prove_eq(a, b, label, detail)
        try:
            same = bool(a == b) or (a != a and b != b)
        except Exception:
            same = a is b
        return self.e.prove(bool(same), label, detail)

    def true(self, c, label, detail=None):
        return self.e.prove(c if isinstance(c, sx.SymBool) else bool(c), label, detail)


class ConcC:
    symbolic = False

    def __init__(self, inputs):
        self.inputs = inputs
        self.failures = []

    def _get(self, name, default):
        v = self.inputs.get(name, default)
        return v

    def int(self, name, lo=None, hi=None):
        return int(self._get(name, lo if lo is not None else 0))

    def real(self, name):
        return float(self._get(name, 0))

    def bool(self, name):
        return bool(self._get(name, False))

    def choice(self, name, n):
        return int(self._get(name, 0))

    def assume(self, c):
        if not c:
            raise _Skip()

    def eq(self, a, b, label, detail=None):
        try:
            import numpy as _np

            if isinstance(a, float) or isinstance(b, float):
                same = bool(_np.isclose(a, b, rtol=1e-9, atol=1e-12)) or (a != a and b != b)
            else:
                same = bool(a == b)
        except Exception:
            same = a is b
        if not same:
            self.failures.append((label, f"{a!r} != {b!r}" + (f" [{detail}]" if detail is not None else "")))
        return same

    def true(self, c, label, detail=None):
        if not c:
            self.failures.append((label, f"false" + (f" [{detail}]" if detail is not None else "")))
        return bool(c)


class _Skip(Exception):
    pass


def run_scenario(scenario, name, sig=lambda label: label, cfg=None, on_exception_label=None, engine_opts=None):
    """explore scenario under SX; replay every counterexample with the same scenario in concrete mode"""
    eng = sx.Engine(name=name, **(engine_opts or {}))
    eng.stop_on_cex = False

    def h(e):
        scenario(SymC(e))

    on_exc = None
    if on_exception_label:
        def on_exc(e, exc):  # noqa: E306
            e.prove(False, on_exception_label, detail=f"{type(exc).__name__}: {str(exc)[:200]}")

    eng.explore(h, on_exception=on_exc)
    viol = []
    for c in eng.cex:
        ok, obs = replay_scenario(scenario, c.inputs, c.label, on_exception_label)
        viol.append(violation(c.label, sig(c.label), cfg or {}, c.inputs, obs, ok))
    return dict(stats=eng.stats.as_dict(), violations=viol)


def replay_scenario(scenario, inputs, label, on_exception_label=None):
    C = ConcC(inputs)
    try:
        scenario(C)
    except _Skip:
        return False, "precondition not met by the concrete inputs"
    except Exception as ex:
        if on_exception_label and (label == on_exception_label or True):
            return True, dict(raised=f"{type(ex).__name__}: {str(ex)[:300]}", inputs={k: str(v) for k, v in list(inputs.items())[:12]})
        raise
    fails = [f for f in C.failures if f[0] == label] or C.failures
    if fails:
        return True, dict(failed=[f"{l}: {m}"[:300] for l, m in fails[:3]], inputs={k: str(v) for k, v in list(inputs.items())[:12]})
    return False, "no check failed on the concrete inputs"
