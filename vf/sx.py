"""SX -- symbolic shim executor.

The real Python functions of /repo run unmodified on NumPy ``dtype=object`` arrays whose
cells are z3-backed scalars.  Every data-dependent branch (``SymBool.__bool__``) forks the
path under solver control; paths are explored depth-first by re-execution with a decision
prefix.  At the end of a path the harness calls ``prove(phi)``: ``check(path and not phi)``;
``unsat`` discharges the obligation for *every* value of the symbols on that path, ``sat``
yields a model (a concrete counterexample to be replayed on the real library), ``unknown``
is an engine error and never a success.

Reals are mathematical reals (z3 Real), Python ints are z3 Int.  Floating-point rounding
is outside every claim made with this engine.
"""
import itertools
import os
import time
from fractions import Fraction

import numpy
import z3


class SXError(BaseException):
    """Engine error (design gap / solver unknown). BaseException on purpose: the code
    under test must not be able to swallow it with ``except Exception``."""


class SXAbortPath(BaseException):
    """Raised to abandon a path (assumption infeasible)."""


class SXDivisionByZero(ZeroDivisionError):
    """A symbolic divisor can be zero on this path (real code would produce inf/nan)."""


_CUR = None


def cur():
    if _CUR is None:
        raise SXError("no active SX engine")
    return _CUR


# ----------------------------------------------------------------------------- values


def _num(v):
    """python number -> z3 numeral (exact)."""
    if isinstance(v, bool):
        raise SXError("bool used as number")
    if isinstance(v, (int, numpy.integer)):
        return z3.IntVal(int(v))
    if isinstance(v, Fraction):
        return z3.RealVal(v)
    if isinstance(v, (float, numpy.floating)):
        f = float(v)
        if f != f or f in (float("inf"), float("-inf")):
            raise SXError(f"non-finite constant {f} mixed with a symbolic value")
        return z3.RealVal(Fraction(f))
    raise SXError(f"cannot lift {type(v)} to a term")


def is_sym(v):
    return isinstance(v, (SymReal, SymInt, SymBool))


def term(v):
    if isinstance(v, (SymReal, SymInt, SymBool)):
        return v.t
    if isinstance(v, (bool, numpy.bool_)):
        return z3.BoolVal(bool(v))
    return _num(v)


def _real(t):
    if t.sort() == z3.IntSort():
        if z3.is_int_value(t):
            return z3.RealVal(t.as_long())  # keep pure-real queries free of Int terms
        return z3.ToReal(t)
    return t


def _wrap(t):
    s = t.sort()
    if s == z3.IntSort():
        return SymInt(t)
    if s == z3.RealSort():
        return SymReal(t)
    return SymBool(t)


def _isnan(v):
    return isinstance(v, (float, numpy.floating)) and v != v


def _arith(a, b, op):
    if _isnan(a) or _isnan(b):
        return float("nan")  # IEEE: NaN propagates through + - * /
    ta, tb = term(a), term(b)
    if ta.sort() != tb.sort():
        ta, tb = _real(ta), _real(tb)
    return _wrap(op(ta, tb))


class _Sym:
    # no __array_priority__: ndarray binops must broadcast over us, not defer to us
    __slots__ = ("t",)

    def __init__(self, t):
        self.t = t

    def __hash__(self):
        return hash(self.t.get_id())

    def __repr__(self):
        return f"<{type(self).__name__} {z3.simplify(self.t)}>"


class _SymNum(_Sym):
    __slots__ = ()

    def __add__(self, o):
        if _opaque(o):
            return NotImplemented
        return _arith(self, o, lambda x, y: x + y)

    def __radd__(self, o):
        if _opaque(o):
            return NotImplemented
        return _arith(o, self, lambda x, y: x + y)

    def __sub__(self, o):
        if _opaque(o):
            return NotImplemented
        return _arith(self, o, lambda x, y: x - y)

    def __rsub__(self, o):
        if _opaque(o):
            return NotImplemented
        return _arith(o, self, lambda x, y: x - y)

    def __mul__(self, o):
        if _opaque(o):
            return NotImplemented
        return _arith(self, o, lambda x, y: x * y)

    def __rmul__(self, o):
        if _opaque(o):
            return NotImplemented
        return _arith(o, self, lambda x, y: x * y)

    def __neg__(self):
        return _wrap(-self.t)

    def __pos__(self):
        return self

    def __abs__(self):
        e = _CUR
        if e is not None and e.fork_abs:
            return self if e.decide(self.t >= 0) else -self
        return _wrap(z3.If(self.t >= 0, self.t, -self.t))

    def __truediv__(self, o):
        if _opaque(o):
            return NotImplemented
        return sdiv(self, o)

    def __rtruediv__(self, o):
        if _opaque(o):
            return NotImplemented
        return sdiv(o, self)

    def __pow__(self, o):
        e = _CUR
        if e is not None and e.abstract_squares and o == 2:
            return e.square_of(self)
        if isinstance(o, (int, numpy.integer)) and not isinstance(o, bool) and o >= 0:
            r = 1
            for _ in range(int(o)):
                r = r * self
            return r
        if isinstance(o, (float, numpy.floating)) and float(o) == int(o) and o >= 0:
            return self ** int(o)
        if isinstance(o, (float, numpy.floating)) and float(o) == 0.5:
            return ssqrt(self)
        raise SXError(f"unsupported power {o!r}")

    def _cmp(self, o, op, nan_result=False):
        if _opaque(o):
            return NotImplemented
        if _isnan(o):
            return nan_result
        if isinstance(o, (float, numpy.floating)) and float(o) in (float("inf"), float("-inf")):
            # a symbolic real is finite: comparisons with an infinity are decided (same answers as IEEE)
            return bool(op(0.0, float(o)))
        ta, tb = term(self), term(o)
        if ta.sort() != tb.sort():
            ta, tb = _real(ta), _real(tb)
        return SymBool(op(ta, tb))

    def __lt__(self, o):
        return self._cmp(o, lambda x, y: x < y)

    def __le__(self, o):
        return self._cmp(o, lambda x, y: x <= y)

    def __gt__(self, o):
        return self._cmp(o, lambda x, y: x > y)

    def __ge__(self, o):
        return self._cmp(o, lambda x, y: x >= y)

    def __eq__(self, o):
        if o is None or isinstance(o, str):
            return False
        return self._cmp(o, lambda x, y: x == y)

    def __ne__(self, o):
        if o is None or isinstance(o, str):
            return True
        return self._cmp(o, lambda x, y: x != y, nan_result=True)

    __hash__ = _Sym.__hash__

    def __bool__(self):
        return bool(self != 0)

    def sqrt(self):
        return ssqrt(self)

    def conjugate(self):
        return self

    # numpy.log / numpy.exp on an object array call these: uninterpreted functions with ground inverse-pair axioms
    def log(self):
        return ulog(self)

    def exp(self):
        return uexp(self)

    # numpy scalars answer these too (0-d behaviour)
    def sum(self, *a, **k):
        return self

    def mean(self, *a, **k):
        return self

    def item(self):
        return self

    def copy(self):
        return self

    ndim = 0
    shape = ()

    @property
    def real(self):
        return self

    @property
    def imag(self):
        return 0


def _opaque(o):
    """operands we refuse to combine with (lets numpy broadcast instead)."""
    return isinstance(o, numpy.ndarray) or o is None or isinstance(o, (str, list, tuple, dict))


class SymReal(_SymNum):
    __slots__ = ()

    def __float__(self):
        v = z3.simplify(self.t)
        if z3.is_rational_value(v):
            return float(Fraction(v.numerator_as_long(), v.denominator_as_long()))
        raise SXError(f"float() of a symbolic real {v} (a float array swallowed a symbol?)")

    def __int__(self):
        t = self.t
        tr = z3.If(t >= 0, z3.ToInt(t), -z3.ToInt(-t))
        return cur().realize(SymInt(tr))

    def __round__(self, nd=None):
        if nd is not None:
            raise SXError("round(x, nd) on symbolic real")
        t = self.t
        fl = z3.ToInt(t)
        frac = t - z3.ToReal(fl)
        half = z3.RealVal(Fraction(1, 2))
        r = z3.If(frac < half, fl, z3.If(frac > half, fl + 1, z3.If(fl % 2 == 0, fl, fl + 1)))
        return cur().realize(SymInt(r))

    def __floordiv__(self, o):
        q = sdiv(self, o)
        return SymReal(z3.ToReal(z3.ToInt(term(q)))) if isinstance(q, SymReal) else q


class SymInt(_SymNum):
    __slots__ = ()

    def __index__(self):
        return cur().realize(self)

    def __int__(self):
        return cur().realize(self)

    def __float__(self):
        return float(cur().realize(self))

    def __floordiv__(self, o):
        if isinstance(o, (int, numpy.integer)) and o > 0:
            return SymInt(self.t / z3.IntVal(int(o)))
        if isinstance(o, SymInt):
            e = cur()
            if bool(o > 0):
                return SymInt(self.t / o.t)
            raise SXError("floordiv by non-positive symbolic int")
        raise SXError(f"floordiv by {o!r}")

    def __rfloordiv__(self, o):
        if isinstance(o, (int, numpy.integer)):
            if bool(self > 0):
                return SymInt(z3.IntVal(int(o)) / self.t)
        raise SXError(f"rfloordiv {o!r}")

    def __mod__(self, o):
        if isinstance(o, (int, numpy.integer)) and o > 0:
            return SymInt(self.t % z3.IntVal(int(o)))
        if isinstance(o, SymInt):
            if bool(o > 0):
                return SymInt(self.t % o.t)
        raise SXError(f"mod by {o!r}")


class SymBool(_Sym):
    __slots__ = ()

    def __bool__(self):
        return cur().decide(self.t)

    def __and__(self, o):
        if _opaque(o):
            return NotImplemented
        return SymBool(z3.And(self.t, term(o)))

    __rand__ = __and__

    def __or__(self, o):
        if _opaque(o):
            return NotImplemented
        return SymBool(z3.Or(self.t, term(o)))

    __ror__ = __or__

    def __invert__(self):
        return SymBool(z3.Not(self.t))

    def __xor__(self, o):
        return SymBool(z3.Xor(self.t, term(o)))

    __rxor__ = __xor__

    def __eq__(self, o):
        return SymBool(self.t == term(o))

    def __ne__(self, o):
        return SymBool(self.t != term(o))

    __hash__ = _Sym.__hash__

    # numeric use of a truth value (e.g. mask.sum()): If-term, no fork
    def _asint(self):
        return SymInt(z3.If(self.t, z3.IntVal(1), z3.IntVal(0)))

    def __add__(self, o):
        return self._asint() + (o._asint() if isinstance(o, SymBool) else o)

    __radd__ = __add__

    def __mul__(self, o):
        return self._asint() * (o._asint() if isinstance(o, SymBool) else o)

    __rmul__ = __mul__

    def __index__(self):
        return int(bool(self))

    def __int__(self):
        return int(bool(self))


def sdiv(a, b):
    if _isnan(a) or _isnan(b):
        return float("nan")
    e = _CUR
    if e is not None and e.abstract_division and is_sym(b):
        return e.quotient_of(a, b)
    return _sdiv(a, b)


def _sdiv(a, b):
    """a / b.  A concrete divisor multiplies by the exact reciprocal; a symbolic divisor is
    eliminated: fresh q with q*b = a under b != 0 (a conservative extension)."""
    e = cur()
    if not is_sym(b):
        if isinstance(b, (int, numpy.integer)):
            fb = Fraction(int(b))
        elif isinstance(b, Fraction):
            fb = b
        else:
            fb = Fraction(float(b))
        if fb == 0:
            raise SXDivisionByZero("division by concrete zero")
        return SymReal(_real(term(a)) * z3.RealVal(1 / fb))
    tb = _real(term(b))
    sb = z3.simplify(tb)
    if z3.is_rational_value(sb):
        fb = Fraction(sb.numerator_as_long(), sb.denominator_as_long())
        return sdiv(a, fb)
    if e.decide(tb == 0):
        raise SXDivisionByZero(f"symbolic divisor may be zero: {sb}")
    ta = term(a) if is_sym(a) else _num(a)
    ta = _real(ta)
    key = (ta.get_id(), tb.get_id())
    e._alive.extend((ta, tb))
    q = e.div_cache.get(key)
    if q is None:
        q = e.fresh_real("q")
        e.div_cache[key] = q
        e.add_definition(q.t * tb == ta)
    return q


def ssqrt(a):
    e = cur()
    if not is_sym(a):
        f = Fraction(a) if not isinstance(a, float) else Fraction(a)
        import math

        r = math.isqrt(f.numerator * f.denominator)
        if r * r == f.numerator * f.denominator:
            return Fraction(r, f.denominator)
        a = SymReal(z3.RealVal(f))
    ta = _real(term(a))
    key = ("sqrt", ta.get_id())
    e._alive.append(ta)
    s = e.div_cache.get(key)
    if s is None:
        if e.decide(ta < 0):
            raise SXError("sqrt of a possibly negative symbolic real")
        s = e.fresh_real("sqrt")
        e.div_cache[key] = s
        e.add_definition(z3.And(s.t >= 0, s.t * s.t == ta))
    return s


ULOG = z3.Function("LOG", z3.RealSort(), z3.RealSort())
UEXP = z3.Function("EXP", z3.RealSort(), z3.RealSort())


def ulog(v):
    if _isnan(v):
        return float("nan")
    e = cur()
    t = _real(term(v))
    r = ULOG(t)
    e.add_definition(z3.Implies(t > 0, UEXP(r) == t))
    return SymReal(r)


def uexp(v):
    if _isnan(v):
        return float("nan")
    e = cur()
    t = _real(term(v))
    r = UEXP(t)
    e.add_definition(z3.And(ULOG(r) == t, r > 0))
    return SymReal(r)


def smax(a, b):
    if not is_sym(a) and not is_sym(b):
        return max(a, b)
    ta, tb = term(a), term(b)
    if ta.sort() != tb.sort():
        ta, tb = _real(ta), _real(tb)
    return _wrap(z3.If(ta >= tb, ta, tb))


def smin(a, b):
    if not is_sym(a) and not is_sym(b):
        return min(a, b)
    ta, tb = term(a), term(b)
    if ta.sort() != tb.sort():
        ta, tb = _real(ta), _real(tb)
    return _wrap(z3.If(ta <= tb, ta, tb))


def sif(c, a, b):
    """If-term (no fork)."""
    if not isinstance(c, SymBool):
        return a if c else b
    ta, tb = term(a), term(b)
    if ta.sort() != tb.sort():
        ta, tb = _real(ta), _real(tb)
    return _wrap(z3.If(c.t, ta, tb))


def ssum(xs):
    r = 0
    for x in xs:
        r = r + x
    return r


# ----------------------------------------------------------------------------- arrays


class SArr(numpy.ndarray):
    """object-dtype ndarray holding symbolic scalars; NumPy does shapes, views,
    broadcasting and aliasing. Only reductions that would fork needlessly are overridden."""

    def __new__(cls, data):
        a = numpy.empty(numpy.shape(data), dtype=object)
        a[...] = data
        return a.view(cls)

    def __array_wrap__(self, arr, context=None, return_scalar=False):
        if arr.ndim == 0 and arr.dtype == object:
            return arr[()]
        if arr.dtype == object:
            return arr.view(SArr)
        return numpy.asarray(arr)

    @staticmethod
    def _index_key(key):
        """an index array that holds (symbolic) integers as objects -- e.g. a row of an argsort kept symbolic --
        becomes the integer array NumPy wants: each symbolic entry is realised (the path forks over its values)"""

        def conv(k):
            if isinstance(k, numpy.ndarray) and k.dtype == object and k.size and all(isinstance(v, (int, numpy.integer, SymInt)) and not isinstance(v, bool) for v in numpy.ndarray.ravel(k)):
                flat = [(_CUR.realize(v) if isinstance(v, SymInt) else int(v)) for v in numpy.ndarray.ravel(k)]
                return numpy.array(flat, dtype=numpy.int64).reshape(k.shape)
            return k

        if isinstance(key, tuple):
            return tuple(conv(k) for k in key)
        return conv(key)

    def __getitem__(self, key):
        return numpy.ndarray.__getitem__(self, SArr._index_key(key))

    def __setitem__(self, key, value):
        numpy.ndarray.__setitem__(self, SArr._index_key(key), value)

    def astype(self, dtype, *a, **k):
        dt = numpy.dtype(dtype) if dtype is not None else None
        if dt is not None and dt.kind in "fO":
            return self.copy()
        if dt is not None and dt.kind in "iu":
            # what an integer cast does to the values: truncation toward zero, kept symbolic
            if any(is_sym(v) for v in self.ravel()):
                out = numpy.empty(self.shape, dtype=object)
                for idx in numpy.ndindex(self.shape):
                    out[idx] = strunc(self[idx])
                return out.view(IntArr)
            out = numpy.empty(self.shape, dtype=dt)
            for idx in numpy.ndindex(self.shape):
                out[idx] = int(self[idx])
            return out
        if dt is not None and dt.kind == "b":
            out = numpy.empty(self.shape, dtype=bool)
            for idx in numpy.ndindex(self.shape):
                out[idx] = bool(self[idx])
            return out
        raise SXError(f"astype({dtype}) on symbolic array")

    def _reduce(self, f, axis, keepdims=False):
        if axis is None:
            r = None
            for v in self.ravel():
                r = v if r is None else f(r, v)
            if r is None:
                raise ValueError("zero-size array to reduction operation")
            return r
        moved = numpy.moveaxis(numpy.asarray(self), axis, 0)
        if moved.shape[0] == 0:
            raise ValueError("zero-size array to reduction operation")
        out = numpy.empty(moved.shape[1:], dtype=object)
        for idx in numpy.ndindex(moved.shape[1:]):
            r = None
            for k in range(moved.shape[0]):
                v = moved[(k,) + idx]
                r = v if r is None else f(r, v)
            out[idx] = r
        out = out.view(SArr)
        if keepdims:
            out = numpy.expand_dims(out, axis)
        return out

    def max(self, axis=None, out=None, keepdims=False, **kw):
        return self._reduce(smax, axis, keepdims)

    def min(self, axis=None, out=None, keepdims=False, **kw):
        return self._reduce(smin, axis, keepdims)


def strunc(x):
    """C/NumPy float -> int conversion: truncation toward zero (symbolic, no realisation)"""
    if isinstance(x, SymReal):
        t = x.t
        return SymInt(z3.If(t >= 0, z3.ToInt(t), -z3.ToInt(-t)))
    if isinstance(x, SymInt):
        return x
    if isinstance(x, SymBool):
        return x._asint()
    return int(x)


class IntArr(SArr):
    """an integer-typed NumPy buffer holding symbolic values: reports an integer dtype to the code
    under test and truncates what is stored into it (what `numpy.empty(..., dtype=int64)[i] = 0.7` does)"""

    @property
    def dtype(self):
        return numpy.dtype("int64")

    def __setitem__(self, k, v):
        if isinstance(v, numpy.ndarray):
            vv = numpy.empty(v.shape, dtype=object)
            for i in numpy.ndindex(v.shape):
                vv[i] = strunc(v[i])
            v = vv
        else:
            v = strunc(v)
        numpy.ndarray.__setitem__(self, k, v)


def int_array(data):
    """caller data of integer dtype (values may be symbolic ints)"""
    a = numpy.empty(numpy.shape(data), dtype=object)
    a[...] = data
    return a.view(IntArr)


def typed_empty(shape, dtype=None, fill=None):
    """numpy.empty/zeros for modules under SX: honours an integer dtype request (truncating buffer)"""
    if _CUR is None:
        # concrete replay: the real thing
        return numpy.empty(shape, dtype=dtype) if fill is None else numpy.full(shape, fill, dtype=dtype if dtype is not None else float)
    if dtype is not None and numpy.dtype(dtype).kind == "b":
        # a mask buffer: real booleans (a mask is used as an index; symbols never live in it)
        return numpy.full(shape, bool(fill) if fill is not None else False, dtype=bool)
    a = numpy.empty(shape, dtype=object)
    if fill is not None:
        a[...] = fill
    if dtype is not None and numpy.dtype(dtype).kind in "iu":
        return a.view(IntArr)
    return a.view(SArr)


def _symbolic_array(a):
    return isinstance(a, numpy.ndarray) and (isinstance(a, SArr) or a.dtype == object)


class Conversions:
    """what numpy's conversion / *_like functions do to an array of symbols: a float dtype (or none) leaves the
    cells alone, an integer dtype truncates them, *_like keeps the kind of its model (a truncating buffer for an
    integer-typed model).  Mixed into the per-module numpy proxies: code under test may convert its inputs."""

    def _convert(self, a, dtype, copy):
        if _CUR is not None and isinstance(a, (list, tuple)):
            try:
                b = numpy.empty(numpy.shape(a), dtype=object)
                b[...] = a
                if any(is_sym(v) for v in b.ravel()):
                    a = b.view(SArr)
            except Exception:  # ragged input: numpy's own business
                pass
        if _CUR is not None and _symbolic_array(a):
            kind = None if dtype is None else numpy.dtype(dtype).kind
            if kind in (None, "f", "O"):
                out = numpy.ndarray.copy(a) if copy else a
                return out.view(IntArr) if (isinstance(a, IntArr) and kind is None) else out.view(SArr)
            if kind in "iu":
                return int_array([strunc(v) for v in numpy.ndarray.ravel(a)]).reshape(a.shape)
        return None

    def asarray(self, a, dtype=None, **kw):
        r = self._convert(a, dtype, False)
        return numpy.asarray(a, dtype=dtype, **kw) if r is None else r

    def ascontiguousarray(self, a, dtype=None, **kw):
        r = self._convert(a, dtype, False)
        return numpy.ascontiguousarray(a, dtype=dtype, **kw) if r is None else r

    def asfortranarray(self, a, dtype=None, **kw):
        r = self._convert(a, dtype, False)
        return numpy.asfortranarray(a, dtype=dtype, **kw) if r is None else r

    def _like(self, a, fill, dtype, shape=None):
        if _CUR is not None and _symbolic_array(a):
            shape = a.shape if shape is None else shape
            if dtype is not None:
                return typed_empty(shape, dtype, fill=fill)
            out = numpy.empty(shape, dtype=object)
            if fill is not None:
                out[...] = fill
            return out.view(IntArr if isinstance(a, IntArr) else SArr)
        return None

    def zeros_like(self, a, dtype=None, **kw):
        r = self._like(a, 0, dtype, kw.get("shape"))
        return numpy.zeros_like(a, dtype=dtype, **kw) if r is None else r

    def ones_like(self, a, dtype=None, **kw):
        r = self._like(a, 1, dtype, kw.get("shape"))
        return numpy.ones_like(a, dtype=dtype, **kw) if r is None else r

    def empty_like(self, a, dtype=None, **kw):
        r = self._like(a, None, dtype, kw.get("shape"))
        return numpy.empty_like(a, dtype=dtype, **kw) if r is None else r

    def full_like(self, a, fill_value, dtype=None, **kw):
        r = self._like(a, fill_value, dtype, kw.get("shape"))
        return numpy.full_like(a, fill_value, dtype=dtype, **kw) if r is None else r


class TypedNumpy(Conversions):
    """module-global numpy for code under SX whose only need is honest buffers: empty/zeros/ones/full return
    object arrays, truncating when an integer dtype is requested; everything else is real NumPy"""

    def __getattr__(self, k):
        return getattr(numpy, k)

    def empty(self, shape, dtype=None, **kw):
        return typed_empty(shape, dtype)

    def zeros(self, shape, dtype=None, **kw):
        return typed_empty(shape, dtype, fill=0)

    def ones(self, shape, dtype=None, **kw):
        return typed_empty(shape, dtype, fill=1)

    def full(self, shape, fill_value, dtype=None, **kw):
        return typed_empty(shape, dtype, fill=fill_value)

def sarr(data):
    return SArr(data)


def is_symarr(a):
    return isinstance(a, numpy.ndarray) and a.dtype == object


# ----------------------------------------------------------------------------- engine


class Counterexample:
    def __init__(self, label, model, inputs, detail=None):
        self.label = label
        self.model = model
        self.inputs = inputs  # name -> python value (Fraction / int / bool)
        self.detail = detail

    def __repr__(self):
        return f"Counterexample({self.label}, {self.inputs})"


class Stats:
    def __init__(self):
        self.paths = 0
        self.queries = 0
        self.branch_queries = 0
        self.obligations = 0
        self.discharged = 0
        self.trivial = 0
        self.solver_s = 0.0
        self.exceptions = {}
        self.samples = []
        self.labels = set()

    def merge(self, o):
        self.paths += o.paths
        self.queries += o.queries
        self.branch_queries += o.branch_queries
        self.obligations += o.obligations
        self.discharged += o.discharged
        self.trivial += o.trivial
        self.solver_s += o.solver_s
        for k, v in o.exceptions.items():
            self.exceptions[k] = self.exceptions.get(k, 0) + v
        for s in o.samples:
            if len(self.samples) < 6:
                self.samples.append(s)
        self.labels |= o.labels

    def as_dict(self):
        return dict(
            paths=self.paths,
            queries=self.queries,
            branch_queries=self.branch_queries,
            obligations=self.obligations,
            discharged=self.discharged,
            trivial=self.trivial,
            solver_s=round(self.solver_s, 3),
            exceptions=dict(self.exceptions),
            samples=list(self.samples),
            labels=sorted(self.labels),
        )

    @staticmethod
    def from_dict(d):
        s = Stats()
        for k in ("paths", "queries", "branch_queries", "obligations", "discharged", "trivial", "solver_s"):
            setattr(s, k, d[k])
        s.exceptions = dict(d["exceptions"])
        s.samples = list(d["samples"])
        s.labels = set(d["labels"])
        return s


class Engine:
    """One exploration = all paths of ``fn`` (a harness closure).

    Only two-sided decisions are recorded in the trail (one-sided ones are implied by the
    path condition and are recomputed identically on re-execution), and the True side is
    always explored first, so "has an unexplored alternative" <=> the entry is True."""

    def __init__(self, timeout_ms=30000, max_paths=200000, name="", logic=None):
        self.logic = logic
        self.timeout_ms = timeout_ms
        self.max_paths = max_paths
        self.name = name
        self.stats = Stats()
        self.cex = []
        self.stop_on_cex = True
        self.failed_labels = set()
        self._first_cex_at = None
        self.grace_after_cex_s = 20.0
        # over-approximations that keep every query linear (sound for proving; counterexamples are replayed):
        self.abstract_squares = False  # x**2 -> fresh s >= 0, order-isomorphic to x on the non-negative bases seen
        self.abstract_division = False  # a/b (symbolic b) -> fresh q with sign/range facts only
        self.fork_abs = False  # abs() as an If-term (False) or as a fork (True: simpler NRA queries)
        self.len_bound = None  # (length term, max): fallback when the code under test takes len() of a symbolic-length array
        self.remarks = set()  # degradations of the claim met during the run (reported in the evidence)
        self._reset_path([])

    # -- path state
    def _reset_path(self, prefix):
        self.solver = z3.SolverFor(self.logic) if self.logic else z3.Solver()
        self.solver.set("timeout", self.timeout_ms)
        self.prefix = list(prefix)
        self.trail = []
        self.inputs = {}
        self.div_cache = {}
        self._alive = []
        self._squares = {}
        self.decided = {}
        self.nfresh = 0
        self.pc = []
        self.notes = {}
        self._len_bound_used = False

    def _check(self, *extra, kind="branch"):
        t0 = time.time()
        self.solver.push()
        for e in extra:
            self.solver.add(e)
        r = self.solver.check()
        m = None
        if r == z3.sat and kind == "prove":
            m = self.solver.model()
        reason = self.solver.reason_unknown() if r == z3.unknown else None
        self.solver.pop()
        self.stats.solver_s += time.time() - t0
        self.stats.queries += 1
        if kind == "branch":
            self.stats.branch_queries += 1
        if r == z3.unknown:
            raise SXError(f"solver returned unknown ({reason}) in {self.name}")
        return (r == z3.sat), m

    # -- symbols
    def real(self, name):
        t = z3.Real(name)
        self.inputs[name] = t
        return SymReal(t)

    def int(self, name, lo=None, hi=None):
        t = z3.Int(name)
        self.inputs[name] = t
        if lo is not None:
            self.add_definition(t >= lo)
        if hi is not None:
            self.add_definition(t <= hi)
        return SymInt(t)

    def bool(self, name):
        t = z3.Bool(name)
        self.inputs[name] = t
        return SymBool(t)

    def fresh_real(self, base="r"):
        self.nfresh += 1
        return SymReal(z3.Real(f"_{base}{self.nfresh}"))

    def fresh_int(self, base="i"):
        self.nfresh += 1
        return SymInt(z3.Int(f"_{base}{self.nfresh}"))

    def reals(self, name, *shape):
        a = numpy.empty(shape, dtype=object)
        for idx in numpy.ndindex(*shape):
            a[idx] = self.real(name + "".join(f"_{i}" for i in idx))
        return a.view(SArr)

    def add_definition(self, t):
        self.solver.add(t)
        self.pc.append(t)

    def assume(self, c):
        """Precondition: restricts the symbols (placed before the code it constrains)."""
        if isinstance(c, SymBool):
            t = c.t
        elif isinstance(c, z3.BoolRef):
            t = c
        else:
            if not c:
                raise SXAbortPath()
            return
        self.solver.add(t)
        self.pc.append(t)
        ok, _ = self._check()
        if not ok:
            raise SXAbortPath()

    def square_of(self, x):
        t = _real(term(x))
        key = ("sq", t.get_id())
        hit = self.div_cache.get(key)
        if hit is not None:
            return hit
        sq = self.fresh_real("sq")
        self.add_definition(sq.t >= 0)
        self.add_definition(z3.Implies(t == 0, sq.t == 0))
        for (kk, other), osq in list(self.div_cache.items()) if False else []:
            pass
        for k2, (ot, osq) in self._squares.items():
            # monotone on non-negative bases (what squaring guarantees there); equal bases, equal squares
            self.add_definition(z3.Implies(z3.And(t >= 0, ot >= 0), z3.And((t < ot) == (sq.t < osq.t), (t == ot) == (sq.t == osq.t))))
            self.add_definition(z3.Implies(t == ot, sq.t == osq.t))
        self._squares[key] = (t, sq)
        self.div_cache[key] = sq
        return sq

    def quotient_of(self, a, b):
        ta, tb = _real(term(a)), _real(term(b))
        key = ("quot", ta.get_id(), tb.get_id())
        self._alive.extend((ta, tb))
        hit = self.div_cache.get(key)
        if hit is not None:
            return hit
        if self.decide(tb == 0):
            raise SXDivisionByZero("symbolic divisor may be zero")
        q = self.fresh_real("quot")
        self.add_definition(z3.Implies(z3.And(tb > 0, ta >= 0), q.t >= 0))
        self.add_definition(z3.Implies(z3.And(tb > 0, ta <= 0), q.t <= 0))
        self.add_definition(z3.Implies(z3.And(tb > 0, ta <= tb, ta >= 0), q.t <= 1))
        self.add_definition(z3.Implies(ta == 0, q.t == 0))
        self.add_definition(z3.Implies(ta == tb, q.t == 1))
        self.div_cache[key] = q
        return q

    # -- forking
    def decide(self, t, true_side_feasible=False):
        if isinstance(t, SymBool):
            t = t.t
        s = z3.simplify(t)
        if z3.is_true(s):
            return True
        if z3.is_false(s):
            return False
        key = s.get_id()
        if key in self.decided:
            return self.decided[key]
        self._alive.append(s)  # z3 reuses the ids of collected terms: cached keys must stay alive
        can_t = True if true_side_feasible else self._check(s)[0]
        if not can_t:
            self.decided[key] = False
            self.solver.add(z3.Not(s))
            return False
        can_f, _ = self._check(z3.Not(s))
        if not can_f:
            self.decided[key] = True
            self.solver.add(s)
            return True
        i = len(self.trail)
        v = self.prefix[i] if i < len(self.prefix) else True
        self.trail.append(v)
        c = s if v else z3.Not(s)
        self.solver.add(c)
        self.pc.append(c)
        self.decided[key] = v
        return v

    def realize(self, x, limit=64):
        """Concrete value of a symbolic int: fork on x == v for a feasible v (exhaustive:
        the other side x != v is explored as a separate path)."""
        if not isinstance(x, SymInt):
            return int(x)
        s = z3.simplify(x.t)
        if z3.is_int_value(s):
            return s.as_long()
        for _ in range(limit):
            t0 = time.time()
            r = self.solver.check()
            if r != z3.sat:
                raise SXError("realize: path infeasible/unknown")
            v = self.solver.model().eval(s, model_completion=True).as_long()
            self.stats.solver_s += time.time() - t0
            self.stats.queries += 1
            if self.decide(s == v, true_side_feasible=True):  # v comes from a model of the path
                return v
        raise SXError("realize: too many candidate values (unbounded symbolic int?)")

    # -- obligations
    def prove(self, phi, label, detail=None):
        """Proof obligation under the current path condition."""
        if label in self.failed_labels:
            return False  # already refuted on an earlier path: one counterexample per obligation label
        self.stats.obligations += 1
        self.stats.labels.add(label)
        if isinstance(phi, numpy.ndarray) and phi.ndim == 0:
            phi = phi[()]
        if isinstance(phi, SymBool):
            t = phi.t
        elif isinstance(phi, z3.BoolRef):
            t = phi
        elif isinstance(phi, (bool, numpy.bool_)):
            t = z3.BoolVal(bool(phi))
        else:
            raise SXError(f"prove() needs a truth value, got {type(phi)}")
        if isinstance(phi, (bool, numpy.bool_)) and phi:
            # decided by concrete execution, no symbol involved
            self.stats.discharged += 1
            self.stats.trivial += 1
            return True
        s = t
        sat, m = self._check(z3.Not(s), kind="prove")
        if not sat:
            self._maybe_dump(s, label)
            self.stats.discharged += 1
            if len(self.stats.samples) < 3:
                self.stats.samples.append(
                    {
                        "engine": self.name,
                        "obligation": label,
                        "path_condition": [str(z3.simplify(p))[:160] for p in self.pc[:8]],
                        "goal": str(s)[:300],
                        "verdict": "unsat(path & !goal)",
                    }
                )
            return True
        inputs = {name: model_value(m, tt) for name, tt in self.inputs.items()}
        self.cex.append(Counterexample(label, m, inputs, detail))
        self.failed_labels.add(label)
        return False

    _dumped = {}

    def _maybe_dump(self, goal, label):
        """thorough tier: a sample of discharged queries is written as SMT-LIB2 for a second solver"""
        d = os.environ.get("VERIF_DUMP_SMT")
        if not d:
            return
        key = label.split("/")[0][:40]
        if Engine._dumped.get(key, 0) >= 1 or len(Engine._dumped) >= 6:
            return
        Engine._dumped[key] = Engine._dumped.get(key, 0) + 1
        try:
            self.solver.push()
            self.solver.add(z3.Not(goal))
            text = self.solver.to_smt2()
            self.solver.pop()
            os.makedirs(d, exist_ok=True)
            safe = "".join(c if c.isalnum() else "_" for c in key)
            with open(os.path.join(d, f"{os.getpid()}_{safe}.smt2"), "w") as f:
                f.write("; expected: unsat  (path condition AND NOT goal), obligation " + label + "\n" + text)
        except Exception:
            pass

    def prove_eq(self, a, b, label, detail=None):
        if _isnan(a) or _isnan(b):
            # a NaN equals nothing but (for the purpose of "same result") another NaN
            return self.prove(bool(_isnan(a) and _isnan(b)), label, detail if detail is not None else "NaN")
        if is_sym(a) or is_sym(b):
            ta, tb = term(a), term(b)
            if ta.sort() != tb.sort():
                ta, tb = _real(ta), _real(tb)
            return self.prove(ta == tb, label, detail)
        if isinstance(a, float) and isinstance(b, float) and a != a and b != b:
            return self.prove(True, label, detail)
        return self.prove(bool(a == b), label, detail)

    def reachable(self):
        """vacuity guard: the current path condition is satisfiable."""
        ok, _ = self._check()
        return ok

    def model_now(self):
        t0 = time.time()
        r = self.solver.check()
        self.stats.queries += 1
        self.stats.solver_s += time.time() - t0
        if r != z3.sat:
            raise SXError("model_now: path not sat")
        m = self.solver.model()
        return {n: model_value(m, t) for n, t in self.inputs.items()}

    # -- exploration
    def explore(self, fn, on_exception=None):
        """Runs fn(engine) on every feasible path; returns the counterexamples.  An exception
        of the code under test ends its path; it is handed to on_exception(engine, exc)
        (still under the path condition) or re-raised when no handler is given."""
        global _CUR
        prefix = []
        while True:
            self._reset_path(prefix)
            prev = _CUR
            _CUR = self
            try:
                try:
                    fn(self)
                except SXAbortPath:
                    pass
                except Exception as exc:  # outcome of the code under test
                    k = type(exc).__name__
                    self.stats.exceptions[k] = self.stats.exceptions.get(k, 0) + 1
                    if on_exception is None:
                        raise
                    try:
                        on_exception(self, exc)
                    except SXAbortPath:
                        pass
            finally:
                _CUR = prev
            self.stats.paths += 1
            if self.cex and self.stop_on_cex:
                return self.cex
            if self.cex:
                # a counterexample exists: keep exploring for other obligations, but not for ever (a broken
                # tree can blow the path space up); stopping early never hides anything -- the check fails
                if self._first_cex_at is None:
                    self._first_cex_at = time.time()
                elif time.time() - self._first_cex_at > self.grace_after_cex_s:
                    return self.cex
            if self.stats.paths >= self.max_paths:
                raise SXError(f"path budget exhausted ({self.max_paths}) in {self.name}")
            tr = list(self.trail)
            while tr and tr[-1] is False:
                tr.pop()
            if not tr:
                return self.cex
            tr[-1] = False
            prefix = tr


def model_value(m, t):
    v = m.eval(t, model_completion=True)
    if z3.is_int_value(v):
        return v.as_long()
    if z3.is_rational_value(v):
        return Fraction(v.numerator_as_long(), v.denominator_as_long())
    if z3.is_true(v):
        return True
    if z3.is_false(v):
        return False
    if z3.is_algebraic_value(v):
        a = v.approx(20)
        return Fraction(a.numerator_as_long(), a.denominator_as_long())
    raise SXError(f"cannot extract model value {v}")


def jsonable(v):
    if isinstance(v, Fraction):
        return {"num": v.numerator, "den": v.denominator} if v.denominator != 1 else v.numerator
    if isinstance(v, dict):
        return {k: jsonable(x) for k, x in v.items()}
    if isinstance(v, (list, tuple)):
        return [jsonable(x) for x in v]
    if isinstance(v, numpy.ndarray):
        return jsonable(v.tolist())
    if isinstance(v, (numpy.integer,)):
        return int(v)
    if isinstance(v, (numpy.floating,)):
        return float(v)
    if isinstance(v, (numpy.bool_,)):
        return bool(v)
    return v


def unjson(v):
    if isinstance(v, dict) and set(v) == {"num", "den"}:
        return Fraction(v["num"], v["den"])
    if isinstance(v, dict):
        return {k: unjson(x) for k, x in v.items()}
    if isinstance(v, list):
        return [unjson(x) for x in v]
    return v
