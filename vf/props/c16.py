"""C16 -- pipeline introspection and drawing describe the pipeline they are given.

SX (path-complete enumeration of a structure space by realisation): the pipeline is decoded from
a symbolic shape code -- number of steps, kind of each step (transformer, nested Pipeline,
FeatureUnion, ColumnTransformer with named or integer columns, 'passthrough', remainder flag),
child counts, column selections, final predictor (none / classifier / regressor) -- every code in
the bound is realised by the engine and decoded into REAL scikit-learn containers around tagged
leaf transformers; the data schema (DataFrame / ndarray / list of names) is enumerated.
Obligations: enumerate_pipeline_models yields each nested estimator exactly once (every
'passthrough' occurrence included), parents first, with pairwise distinct coordinates of length
depth+1; pipeline2str prints one line per yielded model, indented by its depth;
alter_pipeline_for_debugging leaves every output of the fitted pipeline unchanged and records for
each step its last actual input and output, consecutive steps chaining; pipeline2dot parses as
DOT, every edge endpoint is declared, every leaf step and every input column appears, the graph is
acyclic and the final outputs are reachable from the input schema.
The quantifier is "all programs": the solver's share is choosing the structures, not arithmetic.
"""
import re

import copy

import numpy
import pandas
from sklearn.base import BaseEstimator, ClassifierMixin, RegressorMixin, TransformerMixin
from sklearn.compose import ColumnTransformer
from sklearn.pipeline import FeatureUnion, Pipeline

from .. import harness, loader, sx

MOD = "vf.props.c16"


class Tr(BaseEstimator, TransformerMixin):
    def __init__(self, k=1):
        self.k = k

    def fit(self, X, y=None):
        self.n_ = numpy.asarray(X).shape[1]
        return self

    def transform(self, X):
        return numpy.asarray(X, dtype=float) * 2 + self.k


class Clf(BaseEstimator, ClassifierMixin):
    def fit(self, X, y):
        self.classes_ = numpy.array(sorted(set(numpy.asarray(y).tolist())))
        return self

    def predict(self, X):
        return (numpy.asarray(X, dtype=float).sum(axis=1) > 20).astype(int)

    def predict_proba(self, X):
        s = numpy.asarray(X, dtype=float).sum(axis=1)
        p = 1 / (1 + numpy.exp(-s / 50))
        return numpy.column_stack([1 - p, p])

    def decision_function(self, X):
        return numpy.asarray(X, dtype=float).sum(axis=1) - 20


class Reg(BaseEstimator, RegressorMixin):
    def fit(self, X, y):
        self.fitted_ = True
        return self

    def predict(self, X):
        return numpy.asarray(X, dtype=float).sum(axis=1) * 0.5


COLSETS_NAMED = [["a"], ["a", "b"], ["c"], ["b", "c"]]
COLSETS_INT = [[0], [0, 1], [2], [1, 2]]


class Builder:
    """decodes a symbolic shape code into a real scikit-learn pipeline + the ground-truth tree"""

    def __init__(self, C, named, max_nodes, fixed=None):
        self.C, self.named, self.n, self.k, self.max_nodes = C, named, 0, 0, max_nodes
        self.fixed = fixed or {}

    def pick(self, n):
        self.n += 1
        name = f"s{self.n}"
        if name in self.fixed:  # the first choices are enumerated by the configurations (spread over the cores)
            return self.fixed[name]
        return self.C.choice(name, n)

    def leaf(self):
        self.k += 1
        t = Tr(k=self.k)
        return t, dict(obj=t, kind="leaf", children=[], vs=None)

    def budget(self):
        return self.k < self.max_nodes

    def step(self, depth, first):
        kinds = ["T"]
        if depth < 2 and self.budget():
            kinds += ["P", "U"]
            if first:
                kinds.append("CT")
        kind = kinds[self.pick(len(kinds))]
        if kind == "T":
            return self.leaf()
        if kind == "P":
            n = 1 + self.pick(2)
            subs = [self.step(depth + 1, first and i == 0) for i in range(n)]
            obj = Pipeline([(f"p{depth}_{i}", s[0]) for i, s in enumerate(subs)])
            return obj, dict(obj=obj, kind="Pipeline", children=[s[1] for s in subs], vs=None)
        if kind == "U":
            n = 1 + self.pick(2)
            subs = [self.step(depth + 1, first) for i in range(n)]
            obj = FeatureUnion([(f"u{depth}_{i}", s[0]) for i, s in enumerate(subs)])
            return obj, dict(obj=obj, kind="FeatureUnion", children=[s[1] for s in subs], vs=None)
        # ColumnTransformer
        n = 1 + self.pick(2)
        trs, kids = [], []
        sets = COLSETS_NAMED if self.named else COLSETS_INT
        for i in range(n):
            cols = sets[self.pick(len(sets))]
            what = self.pick(3)  # transformer / nested pipeline / passthrough
            if what == 2:
                trs.append((f"c{depth}_{i}", "passthrough", cols))
                kids.append(dict(obj="passthrough", kind="passthrough", children=[], vs=cols))
            elif what == 1 and self.budget():
                a, ta = self.leaf()
                b, tb = self.leaf()
                p = Pipeline([("x", a), ("y", b)])
                trs.append((f"c{depth}_{i}", p, cols))
                kids.append(dict(obj=p, kind="Pipeline", children=[ta, tb], vs=cols))
            else:
                t, tt = self.leaf()
                tt["vs"] = cols
                trs.append((f"c{depth}_{i}", t, cols))
                kids.append(tt)
        rem = ["drop", "passthrough"][self.pick(2)]
        obj = ColumnTransformer(trs, remainder=rem)
        return obj, dict(obj=obj, kind="ColumnTransformer", children=kids, vs=None, remainder=rem)


def walk(tree, coor=(0,), out=None):
    out = [] if out is None else out
    out.append((coor, tree))
    for i, ch in enumerate(tree["children"]):
        walk(ch, coor + (i,), out)
    return out


EDGE = re.compile(r"^\s*([A-Za-z0-9_]+)(?::([A-Za-z0-9_]+))?\s*->\s*([A-Za-z0-9_]+)(?::([A-Za-z0-9_]+))?\s*;\s*$")
NODE = re.compile(r'^\s*([A-Za-z0-9_]+)\[label="(.*?)",(.*)\];\s*$')
OPT = re.compile(r"^\s*[a-z]+=[^;]+;\s*$")


def parse_dot(text):
    lines = text.split("\n")
    if not lines or lines[0].strip() != "digraph{" or lines[-1].strip() != "}":
        return None, "not a digraph{ ... } block"
    nodes, edges = {}, []
    for ln in lines[1:-1]:
        if not ln.strip() or OPT.match(ln):
            continue
        m = NODE.match(ln)
        if m:
            if m.group(1) in nodes:
                return None, f"node declared twice: {m.group(1)}"
            nodes[m.group(1)] = m.group(2)
            continue
        m = EDGE.match(ln)
        if m:
            edges.append((m.group(1), m.group(2), m.group(3), m.group(4)))
            continue
        return None, f"line is neither a node, an edge nor an option: {ln!r}"
    return (nodes, edges), None


def scenario_for(cfg):
    hp = loader.load("helpers.pipeline")
    vz = loader.load("plotting.visualize")
    named = cfg["schema"] != "ndarray"

    def scenario(C):
        B = Builder(C, named, cfg["max_nodes"], cfg.get("fixed"))
        nsteps = 1 + B.pick(2)
        steps = [B.step(1, i == 0) for i in range(nsteps)]
        final = B.pick(3)  # none / classifier / regressor
        objs = [(f"s{i}", s[0]) for i, s in enumerate(steps)]
        kids = [s[1] for s in steps]
        if final == 1:
            f = Clf()
            objs.append(("final", f))
            kids.append(dict(obj=f, kind="leaf", children=[], vs=None))
        elif final == 2:
            f = Reg()
            objs.append(("final", f))
            kids.append(dict(obj=f, kind="leaf", children=[], vs=None))
        pipe = Pipeline(objs)
        tree = dict(obj=pipe, kind="Pipeline", children=kids, vs=None)
        truth = walk(tree)
        # ---- enumerate_pipeline_models
        got = list(hp.enumerate_pipeline_models(pipe))
        C.true(len(got) == len(truth), "enumerate/every-nested-estimator-exactly-once", detail=(len(got), len(truth)))
        coors = [g[0] for g in got]
        C.true(len(set(coors)) == len(coors), "enumerate/coordinates-pairwise-distinct")
        if len(got) == len(truth):
            for (gc, gm, gv), (tc, tn) in zip(got, truth):
                same = (gm is tn["obj"]) or (tn["obj"] == "passthrough" and type(gm).__name__ == "PassThrough")
                C.true(same and tuple(gc) == tuple(tc), "enumerate/parents-first-with-coordinates-of-length-depth+1", detail=(gc, tc, type(gm).__name__))
                if tn["vs"] is not None:
                    C.true(list(gv) == list(tn["vs"]), "enumerate/columns-of-a-ColumnTransformer-branch", detail=(gv, tn["vs"]))
        # ---- pipeline2str
        for width in (3, 2, 5):
            text = vz.pipeline2str(pipe, indent=width)
            lines = text.split("\n")
            C.true(len(lines) == len(got), "pipeline2str/one-line-per-model", detail=(len(lines), len(got)))
            if len(lines) == len(got):
                for ln, (gc, gm, gv) in zip(lines, got):
                    ind = len(ln) - len(ln.lstrip(" "))
                    C.true(ind == width * (len(gc) - 1) and ln.strip().startswith(type(gm).__name__), "pipeline2str/indentation=indent*depth-and-class-name", detail=(width, ln, gc))
        # ---- fit on real data, then instrument
        X = pandas.DataFrame(dict(a=[1.0, 2.0, 3.0, 4.0], b=[0.5, 0.25, 4.0, 8.0], c=[10.0, 20.0, 30.0, 40.0]))
        y = numpy.array([0, 1, 0, 1])
        data = X if cfg["schema"] == "frame" else (X.values.copy() if cfg["schema"] == "ndarray" else X)
        pipe.fit(data, y)
        methods = ["transform"] if final == 0 else (["predict", "predict_proba", "decision_function"] if final == 1 else ["predict"])
        before = {m: getattr(pipe, m)(data) for m in methods}
        twin = copy.deepcopy(pipe)  # never instrumented
        hp.alter_pipeline_for_debugging(pipe)
        for m in methods:
            after = getattr(pipe, m)(data)
            C.true(numpy.array_equal(numpy.asarray(after), numpy.asarray(before[m])), "debug/outputs-unchanged-by-the-instrumentation", detail=m)
        # every top-level step recorded its last input/output, consecutive steps chain
        prev_out = None
        for i, (name, stp) in enumerate(pipe.steps):
            dbg = getattr(stp, "_debug", None)
            C.true(dbg is not None, "debug/every-step-instrumented", detail=name)
            if dbg is None:
                break
            if i == len(pipe.steps) - 1 and final != 0:
                key = methods[-1]
            else:
                key = "transform"
            C.true(key in dbg.inputs and key in dbg.outputs, "debug/step-recorded-its-last-input-and-output", detail=(name, sorted(dbg.inputs)))
            if i == len(pipe.steps) - 1:
                for m in methods:  # every method called on the pipeline since the instrumentation
                    C.true(m in dbg.inputs and m in dbg.outputs and numpy.array_equal(numpy.asarray(dbg.outputs[m]), numpy.asarray(before[m])), "debug/final-step-recorded-every-method-called", detail=(m, sorted(dbg.inputs)))
            if key not in dbg.inputs:
                break
            if prev_out is not None:
                C.true(numpy.array_equal(numpy.asarray(dbg.inputs[key]), numpy.asarray(prev_out)), "debug/consecutive-steps-chain", detail=name)
            else:
                C.true(numpy.array_equal(numpy.asarray(dbg.inputs[key]), numpy.asarray(data)), "debug/first-step-saw-the-data")
            prev_out = dbg.outputs[key]
        # history: the caller refills the same array / frame in place and asks again: the instrumented pipeline
        # answers for the new content, like its never-instrumented twin
        if isinstance(data, pandas.DataFrame):
            data.iloc[:, :] = data.values * 2.0 + 1.0
        else:
            data *= 2.0
            data += 1.0
        for m in methods:
            C.true(numpy.array_equal(numpy.asarray(getattr(pipe, m)(data)), numpy.asarray(getattr(twin, m)(data))), "debug/outputs-follow-the-data-on-a-second-call(same-object)", detail=m)
        # ---- pipeline2dot
        schema = data if cfg["schema"] != "list" else list(X.columns)
        dot = vz.pipeline2dot(pipe, schema)
        parsed, err = parse_dot(dot)
        C.true(parsed is not None, "dot/well-formed", detail=err)
        if parsed is None:
            return
        nodes, edges = parsed
        for a, pa, b, pb in edges:
            C.true(a in nodes and b in nodes, "dot/every-edge-endpoint-is-declared", detail=(a, b))
            for nd, port in ((a, pa), (b, pb)):
                if port is not None and nd in nodes:
                    C.true(f"<{port}>" in nodes[nd], "dot/every-port-is-declared", detail=(nd, port))
        incols = list(X.columns) if cfg["schema"] != "ndarray" else ["X0", "X1", "X2"]
        C.true("sch0" in nodes and all(c in nodes["sch0"] for c in incols), "dot/every-input-column-appears", detail=nodes.get("sch0"))
        labels = list(nodes.values())
        for tc, tn in truth:
            if tn["kind"] == "leaf":
                C.true(any(type(tn["obj"]).__name__ == lab for lab in labels), "dot/every-step-appears", detail=type(tn["obj"]).__name__)
        want_leaves = sum(1 for tc, tn in truth if tn["kind"] == "leaf")
        C.true(sum(1 for lab in labels if lab in ("Tr", "Clf", "Reg")) == want_leaves, "dot/every-step-appears-once", detail=(labels, want_leaves))
        # acyclic + final outputs reachable from sch0
        adj = {}
        for a, pa, b, pb in edges:
            adj.setdefault(a, set()).add(b)
        color = {}

        def cyc(u):
            color[u] = 1
            for v in adj.get(u, ()):
                if color.get(v) == 1 or (color.get(v) is None and cyc(v)):
                    return True
            color[u] = 2
            return False

        C.true(not any(color.get(u) is None and cyc(u) for u in list(adj)), "dot/acyclic")
        reach, todo = {"sch0"}, ["sch0"]
        while todo:
            u = todo.pop()
            for v in adj.get(u, ()):
                if v not in reach:
                    reach.add(v)
                    todo.append(v)
        sinks = [nm for nm in nodes if nm not in adj and nm != "sch0"]
        C.true(len(sinks) >= 1 and all(sn in reach for sn in sinks), "dot/final-outputs-reachable-from-the-inputs", detail=(sinks, sorted(reach)))

    return scenario


def _sig(cfg):
    return lambda l: l + f"[{cfg['schema']}]"


SPECS = [0, [], [0], "a", ["a", "b"], 1, [1, 2]]  # column selections a ColumnTransformer accepts: scalars (falsy 0 too), lists, the empty list


def sc_enum_specs(cfg):
    """enumerate_pipeline_models only (no fit): whatever the column selection of a ColumnTransformer branch is --
    a scalar, the scalar 0, an empty list -- the branch's estimator is yielded once, with its selection"""
    hp = loader.load("helpers.pipeline")

    def scenario(C):
        s0, s1 = SPECS[C.choice("spec0", len(SPECS))], SPECS[C.choice("spec1", len(SPECS))]
        t0, t1, t2 = Tr(1), Tr(2), Tr(3)
        inner = Pipeline([("u", t1), ("v", t2)])
        ct = ColumnTransformer([("b0", t0, s0), ("b1", inner, s1)])
        pipe = Pipeline([("ct", ct), ("final", Reg())])
        got = list(hp.enumerate_pipeline_models(pipe))
        want = [pipe, ct, t0, inner, t1, t2, pipe.steps[1][1]]
        models = [g[1] for g in got]
        C.true(len(models) == len(want) and all(any(m is w for m in models) for w in want) and len(set(map(id, models))) == len(models), "enumerate/every-nested-estimator-exactly-once(any-column-selection)", detail=(repr(s0), repr(s1), [type(m).__name__ for m in models]))
        coords = [tuple(g[0]) for g in got]
        C.true(len(set(coords)) == len(coords), "enumerate/distinct-coordinates")
        for g in got:
            if g[1] is t0:
                C.true(g[2] == s0 if not isinstance(s0, list) else list(g[2]) == s0, "enumerate/columns-of-a-ColumnTransformer-branch", detail=(repr(g[2]), repr(s0)))

    return scenario


def run_config(cfg):
    if cfg.get("kind") == "enum_specs":
        return harness.run_scenario(sc_enum_specs(cfg), f"C16{cfg}", cfg=cfg, sig=lambda l: l, on_exception_label="raises")
    return harness.run_scenario(scenario_for(cfg), f"C16{cfg}", cfg=cfg, sig=_sig(cfg), on_exception_label="raises")


def replay(cfg, inputs, label):
    if cfg.get("kind") == "enum_specs":
        return harness.replay_scenario(sc_enum_specs(cfg), inputs, label, "raises")
    return harness.replay_scenario(scenario_for(cfg), inputs, label, "raises")


def configs(tier):
    out = []
    for schema in ("frame", "ndarray", "list"):
        for s1 in (0, 1):
            for s2 in (0, 1, 2, 3):
                out.append(dict(schema=schema, max_nodes=3 if tier == "quick" else 4, fixed=dict(s1=s1, s2=s2)))
    out.append(dict(kind="enum_specs"))
    return out


def run(ctx, rep):
    rep.add_functions("helpers.pipeline", ["enumerate_pipeline_models", "alter_pipeline_for_debugging", "BaseEstimatorDebugInformation.__init__"])
    rep.add_functions("plotting.visualize", ["_pipeline_info", "pipeline2dot", "pipeline2str"])
    cfgs = configs(ctx.tier)
    rep.bounds = dict(structure="top-level Pipeline of 1-2 steps (+ optional final classifier/regressor); each step a transformer, a nested Pipeline (1-2), a FeatureUnion (1-2) or -- first step -- a ColumnTransformer of 1-2 branches (transformer / 2-step pipeline / passthrough) over 4 column selections with remainder drop/passthrough; nesting depth <= 3; <= 3/4 leaf transformers", schemas=["DataFrame", "ndarray", "list of names"])
    rep.assumptions = [
        "containers are real scikit-learn objects; leaf transformers/predictors are tagged BaseEstimator stubs with deterministic numeric outputs; the pipeline is really fitted on a 4x3 table",
        "DOT is read by a small line parser (node declarations with record ports, edges, options)",
    ]
    rep.outside = ["azureml / sklearn-pandas branches (third-party types absent)", "TransformedTargetRegressor (raises by design)", "Graphviz rendering", "deeper or wider pipelines than the bound"]
    rep.exhaustive = True
    res = harness.pmap(MOD, "run_config", cfgs)
    rep.absorb(res, layer="all structures in the bound")

    def twin(e):
        C = harness.SymC(e)
        e.prove(C.choice("k", 3) != 1, "twin")

    eng = sx.Engine(name="C16-twin")
    eng.explore(twin)
    rep.vacuity.append(dict(twin="a shape code never takes its middle value", refuted=bool(eng.cex)))
    if not eng.cex:
        rep.error("vacuity twin was not refuted")
