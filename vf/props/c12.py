"""C12 -- tree utilities are faithful to the tree's decision function.

SX.  (a) the real ``digitize2tree`` (with its inner add_root/add_nodes) runs on a symbolic,
strictly monotonic ``bins`` array (length L, both directions); ``Tree``/``tree_add_node``/
``DecisionTreeRegressor`` are replaced, through the module's globals, by a Python node-table
model that routes left iff x[feature] <= threshold (scikit-learn's rule; validated in every
run against the compiled tree_add_node + the real Tree).  For a symbolic query x, z3 shows
on every root-to-leaf path: leaf value == #{i: bins[i] < x} (increasing) / #{i: bins[i] >= x}
(decreasing) == numpy.digitize(x, bins, right=True).
(b) tree_leave_index / tree_node_parents / tree_find_path_to_root / tree_node_range /
predict_leaves run on every binary tree shape with <= 4 internal nodes (scikit-learn's
depth-first numbering), every assignment of 2 features to the splits, symbolic thresholds and
a symbolic query point: x in box(tree_node_range(leaf)) <=> apply(x) == leaf.
"""
import itertools
from fractions import Fraction

import numpy
import scipy.sparse
import z3

from .. import harness, loader, sx

MOD = "vf.props.c12"
TREE_LEAF = -1


# ------------------------------------------------------------------ node-table model


class PyTree:
    """Model of sklearn.tree._tree.Tree as used by the utilities (node table)."""

    def __init__(self, n_features=1, n_classes=None, n_outputs=1):
        self.children_left = []
        self.children_right = []
        self.feature = []
        self.threshold = []
        self._value = None
        self.n_features = n_features

    # the other per-node arrays of the real Tree, as tree_add_node is asked to fill them by this library
    @property
    def missing_go_to_left(self):
        return numpy.zeros(self.node_count, dtype=numpy.uint8)

    @property
    def n_node_samples(self):
        return numpy.ones(self.node_count, dtype=numpy.int64)

    @property
    def weighted_n_node_samples(self):
        return numpy.ones(self.node_count, dtype=numpy.float64)

    @property
    def impurity(self):
        return numpy.zeros(self.node_count, dtype=numpy.float64)

    @property
    def n_leaves(self):
        return sum(1 for c in self.children_left if c == -1)

    @property
    def node_count(self):
        return len(self.children_left)

    @property
    def value(self):
        if self._value is None or self._value.shape[0] != self.node_count:
            self._value = numpy.zeros((self.node_count, 1, 1), dtype=object)
        return self._value

    def add(self, parent, is_left, is_leaf, feature, threshold):
        nid = self.node_count
        if parent not in (-1, -2):
            if is_left:
                self.children_left[parent] = nid
            else:
                self.children_right[parent] = nid
        if is_leaf:
            self.children_left.append(-1)
            self.children_right.append(-1)
            self.feature.append(-2)
            self.threshold.append(-2.0)
        else:
            self.children_left.append(-1)  # filled when the children are added
            self.children_right.append(-1)
            self.feature.append(feature)
            self.threshold.append(threshold)
        return nid

    def leaf_of(self, x):
        """scikit-learn's routing: left iff x[feature] <= threshold. Forks on symbolic data."""
        n = 0
        path = [0]
        while self.children_left[n] != -1:
            if x[self.feature[n]] <= self.threshold[n]:
                n = self.children_left[n]
            else:
                n = self.children_right[n]
            path.append(n)
        return n, path

    def leaf_term(self, x, n=0):
        """apply(x) as an If-term (no fork)."""
        if self.children_left[n] == -1:
            return n
        c = x[self.feature[n]] <= self.threshold[n]
        return sx.sif(c, self.leaf_term(x, self.children_left[n]), self.leaf_term(x, self.children_right[n]))


def py_tree_add_node(tree, parent, is_left, is_leaf, feature, threshold, impurity, n_node_samples, weighted, missing):
    return tree.add(parent, is_left, is_leaf, feature, threshold)


class PyDTR:
    """Model of a fitted DecisionTreeRegressor/Classifier around a PyTree."""

    def __init__(self, tree=None):
        self.tree_ = tree

    def predict(self, X):
        out = []
        for row in X:
            n, _ = self.tree_.leaf_of(row)
            out.append(self.tree_.value[n, 0, 0])
        return out

    def apply(self, X):
        return numpy.array([self.tree_.leaf_of(row)[0] for row in X])

    def decision_path(self, X):
        t = self.tree_
        m = numpy.zeros((len(X), t.node_count), dtype=numpy.int64)
        for i, row in enumerate(X):
            for n in t.leaf_of(row)[1]:
                m[i, n] = 1
        return scipy.sparse.csr_matrix(m)


class _TD_NP(sx.Conversions):
    def __getattr__(self, n):
        return getattr(numpy, n)

    def array(self, a, dtype=None, **k):
        if dtype is not None and any(sx.is_sym(v) for v in numpy.asarray(a, dtype=object).ravel()):
            return numpy.asarray(a, dtype=object)
        return numpy.array(a, dtype=dtype, **k)


class _TS_NP(sx.Conversions):
    """numpy for tree_structure under SX: full() gives an object array, isnan on cells"""

    def __getattr__(self, n):
        return getattr(numpy, n)

    def full(self, shape, v, dtype=None):
        a = numpy.empty(shape, dtype=object)
        a[...] = v
        return a

    def isnan(self, v):
        if isinstance(v, numpy.ndarray):
            out = numpy.zeros(v.shape, dtype=bool)
            for i in numpy.ndindex(v.shape):
                out[i] = isinstance(v[i], float) and v[i] != v[i]
            return out
        return isinstance(v, (float, numpy.floating)) and v != v


# ------------------------------------------------------------------ (a) digitize2tree


def _digitize_model(td, bins):
    old = td.Tree, td.tree_add_node, td.DecisionTreeRegressor, td.numpy
    td.Tree, td.tree_add_node, td.DecisionTreeRegressor, td.numpy = PyTree, py_tree_add_node, PyDTR, _TD_NP()
    try:
        return td.digitize2tree(bins, right=True)
    finally:
        td.Tree, td.tree_add_node, td.DecisionTreeRegressor, td.numpy = old


def run_digitize(cfg):
    td = loader.load("mltree.tree_digitize", with_ext=True)
    L, asc = cfg["L"], cfg["asc"]

    def h(e):
        bins = e.reals("b", L)
        for i in range(L - 1):
            e.assume(bins[i] < bins[i + 1] if asc else bins[i] > bins[i + 1])
        x = e.real("x")
        cl = _digitize_model(td, bins)
        got = cl.predict([[x]])[0]
        if asc:
            want = sx.ssum([sx.sif(bins[i] < x, 1, 0) for i in range(L)])
        else:
            want = sx.ssum([sx.sif(bins[i] >= x, 1, 0) for i in range(L)])
        if isinstance(got, float) and got != got:
            e.prove(False, "digitize/leaf-has-no-value")
        else:
            e.prove_eq(got, want, "digitize")

    eng = sx.Engine(name=f"C12{cfg}")
    eng.explore(h)
    viol = []
    for c in eng.cex[:1]:
        ok, obs = replay(cfg, c.inputs, c.label)
        viol.append(harness.violation(c.label, f"{c.label}/{'increasing' if asc else 'decreasing'}", cfg, c.inputs, obs, ok))
    # validation: the node-table model and the compiled tree agree on concrete bins
    validated, errors = 0, []
    rng = numpy.random.RandomState(L * 2 + int(asc))
    b = numpy.sort(rng.choice(50, size=L, replace=False)).astype(float)
    if not asc:
        b = b[::-1].copy()
    xs = numpy.concatenate([b, b - 0.5, b + 0.5]).astype(numpy.float32)
    try:
        # concrete differential run of the COMPILED path on edges that are not exact in float32 and query
        # points that are (the float32 neighbours of each edge): the stored thresholds must be the float64 edges
        b2 = b + 0.1
        x32 = numpy.unique(numpy.concatenate([numpy.float32(b2), numpy.nextafter(numpy.float32(b2), numpy.float32(1e9)), numpy.nextafter(numpy.float32(b2), numpy.float32(-1e9))])).astype(numpy.float32)
        tree2 = td.digitize2tree(b2, right=True)
        got2 = tree2.predict(x32.reshape(-1, 1))
        exp2 = numpy.digitize(x32.astype(numpy.float64), b2, right=True)
        if not numpy.array_equal(got2, exp2):
            i = int(numpy.nonzero(got2 != exp2)[0][0])
            viol.append(harness.violation("digitize/compiled-tree", f"digitize/compiled-tree-vs-numpy.digitize/{'increasing' if asc else 'decreasing'}", cfg, {}, dict(bins=b2.tolist(), x=float(x32[i]), tree=float(got2[i]), numpy_digitize=int(exp2[i]), note="x is exactly representable in float32; the edges are not"), True))
        real = td.digitize2tree(b, right=True)
        # the compiled tree_add_node must hand each argument to the slot the Python code means (the node-table
        # model ignores "missing values go left" = 0, which decides where x = NaN ends: numpy.digitize puts it
        # beyond the last increasing / before the first decreasing edge)
        nanq = real.predict(numpy.array([[numpy.nan]], dtype=numpy.float32))
        nane = numpy.digitize(numpy.array([numpy.nan]), b, right=True)
        if not numpy.array_equal(nanq, nane):
            viol.append(harness.violation("digitize/compiled-tree", f"digitize/compiled-tree-vs-numpy.digitize(nan)/{'increasing' if asc else 'decreasing'}", cfg, {}, dict(bins=b.tolist(), x="nan", tree=float(nanq[0]), numpy_digitize=int(nane[0]), missing_go_to_left=numpy.asarray(getattr(real.tree_, "missing_go_to_left", [])).tolist()[:8]), True))
        # the edges as a caller may hold them: small unsigned / signed integers, float32 (same values)
        for dt in (numpy.uint8, numpy.int32, numpy.float32):
            bt = b.astype(dt)
            gt = td.digitize2tree(bt, right=True).predict(xs.reshape(-1, 1))
            et = numpy.digitize(xs.astype(numpy.float64), bt, right=True)
            if not numpy.array_equal(gt, et):
                i = int(numpy.nonzero(gt != et)[0][0])
                viol.append(harness.violation("digitize/compiled-tree", f"digitize/compiled-tree-vs-numpy.digitize({numpy.dtype(dt).name}-edges)/{'increasing' if asc else 'decreasing'}", cfg, {}, dict(bins=bt.tolist(), bins_dtype=numpy.dtype(dt).name, x=float(xs[i]), tree=float(gt[i]), numpy_digitize=int(et[i])), True))
                break
        rp = real.predict(xs.reshape(-1, 1))
        mp = numpy.array([float(v) for v in _digitize_model(td, b).predict([[float(v)] for v in xs])])
        if numpy.array_equal(rp, mp) and real.tree_.node_count == _digitize_model(td, b).tree_.node_count:
            validated = 1
        elif not viol:
            errors.append(f"node-table model disagrees with the compiled tree on bins={b.tolist()}")
    except Exception as ex:  # the real code raising on valid bins is caught by replay, not here
        if not viol:
            errors.append(f"validation raised {type(ex).__name__}: {ex}")
    return dict(stats=eng.stats.as_dict(), violations=viol, validated=validated, errors=errors)


def _rank_map(values):
    """order-isomorphic small integers (the code only compares values)"""
    u = sorted(set(values))
    return {v: float(i * 2) for i, v in enumerate(u)}


def replay_digitize(cfg, inputs, label):
    td = loader.load("mltree.tree_digitize", with_ext=True)
    L = cfg["L"]
    vals = [inputs.get(f"b_{i}", Fraction(i if cfg["asc"] else -i)) for i in range(L)]
    x = inputs.get("x", Fraction(0))
    rm = _rank_map(vals + [x])
    bins = numpy.array([rm[v] for v in vals])
    try:
        cl = td.digitize2tree(bins, right=True)
    except Exception as e:
        return True, dict(bins=bins.tolist(), raised=f"{type(e).__name__}: {e}")
    # every position relative to the edges (on, between, beyond)
    xs = sorted(set([rm[x]] + [b + d for b in bins.tolist() for d in (-1.0, 0.0, 1.0)]))
    xs = numpy.array(xs + [numpy.nan])
    got = cl.predict(xs.reshape(-1, 1).astype(numpy.float32))
    exp = numpy.digitize(xs, bins, right=True)
    bad = numpy.nonzero(got != exp)[0]
    if len(bad):
        i = int(bad[0])
        return True, dict(bins=bins.tolist(), x=float(xs[i]), tree=float(got[i]), numpy_digitize=int(exp[i]))
    if bins.min() >= 0 and bins.max() < 250:
        for dt in (numpy.uint8, numpy.int32, numpy.float32):
            bt = bins.astype(dt)
            gt = td.digitize2tree(bt, right=True).predict(xs[:-1].reshape(-1, 1).astype(numpy.float32))
            et = numpy.digitize(xs[:-1], bt, right=True)
            if not numpy.array_equal(gt, et):
                i = int(numpy.nonzero(gt != et)[0][0])
                return True, dict(bins=bt.tolist(), bins_dtype=numpy.dtype(dt).name, x=float(xs[i]), tree=float(gt[i]), numpy_digitize=int(et[i]))
    return False, "tree == numpy.digitize on and around every edge"


# ------------------------------------------------------------------ (b) structure utilities


def shapes(k):
    """all binary tree shapes with k internal nodes, as nested tuples (left, right) / None"""
    if k == 0:
        return [None]
    out = []
    for a in range(k):
        for l in shapes(a):
            for r in shapes(k - 1 - a):
                out.append((l, r))
    return out


def shape_str(s):
    return "." if s is None else f"({shape_str(s[0])}{shape_str(s[1])})"


def parse_shape(t):
    def p(i):
        if t[i] == ".":
            return None, i + 1
        l, i = p(i + 1)
        r, i = p(i)
        return (l, r), i + 1

    return p(0)[0]


def build(shape, feats, ths, add, tree, numbering="dfs"):
    """depth-first numbering, as scikit-learn's depth-first builder and digitize2tree produce; "bfs": level by
    level, one of the orders of the best-first builder (max_leaf_nodes=k): a left child is not parent+1 there.
    feats[k]/ths[k] belong to the k-th internal node in depth-first order in both numberings."""
    it = iter(range(len(feats)))
    if numbering == "bfs":
        pre = {}

        def number(s, pos):
            if s is not None:
                pre[pos] = next(it)
                number(s[0], pos + "L")
                number(s[1], pos + "R")

        number(shape, "")
        queue = [(shape, "", -1, False)]
        while queue:
            s, pos, parent, is_left = queue.pop(0)
            if s is None:
                add(tree, parent, is_left, True, 0, 0.0, 0, 1, 1.0, 0)
                continue
            k = pre[pos]
            n = add(tree, parent, is_left, False, feats[k], ths[k], 0, 1, 1.0, 0)
            queue.append((s[0], pos + "L", n, True))
            queue.append((s[1], pos + "R", n, False))
        return tree

    def rec(s, parent, is_left):
        if s is None:
            return add(tree, parent, is_left, True, 0, 0.0, 0, 1, 1.0, 0)
        k = next(it)
        n = add(tree, parent, is_left, False, feats[k], ths[k], 0, 1, 1.0, 0)
        rec(s[0], n, True)
        rec(s[1], n, False)
        return n

    rec(shape, -1, False)
    return tree


def struct_configs(tier):
    kmax = 3 if tier == "quick" else 4
    out = []
    for k in range(1, kmax + 1):
        for s in shapes(k):
            for feats in itertools.product((0, 1), repeat=k):
                if feats[0] == 1 and k > 1 and all(f == 1 for f in feats):
                    continue  # all-ones is the all-zeros case with an unused column 0: keep one of each kind
                out.append(dict(kind="struct", shape=shape_str(s), feats=list(feats)))
    # the same trees numbered level by level (best-first builder): only where it differs from depth-first
    for c in list(out):
        if len(c["feats"]) >= 2:
            out.append(dict(c, numbering="bfs"))
    # history: the same estimator object is refitted (tree_ replaced) with another tree of the SAME
    # node count but another layout; the utilities must describe the tree it holds now
    for c in out:
        k = len(c["feats"])
        ss = [shape_str(x) for x in shapes(k)]
        c["shape2"] = ss[(ss.index(c["shape"]) + 1) % len(ss)]
    return out


def run_struct(cfg):
    ts = loader.load("mltree.tree_structure", with_ext=True)
    shape = parse_shape(cfg["shape"])
    feats = cfg["feats"]
    k = len(feats)

    def h(e):
        ths = [e.real(f"t_{i}") for i in range(k)]
        x = [e.real("x_0"), e.real("x_1")]
        tree = build(shape, feats, ths, py_tree_add_node, PyTree(), cfg.get("numbering", "dfs"))
        # arrays, as the real Tree exposes them
        tree.children_left = numpy.array(tree.children_left)
        tree.children_right = numpy.array(tree.children_right)
        tree.feature = numpy.array(tree.feature)
        tree.threshold = sx.sarr(tree.threshold)
        model = PyDTR(tree)
        old = ts.numpy
        ts.numpy = _TS_NP()
        try:
            leaves = ts.tree_leave_index(model)
            want_leaves = [i for i in range(tree.node_count) if tree.children_left[i] == -1 and tree.children_right[i] == -1]
            e.prove(list(leaves) == want_leaves, "tree_leave_index")
            parents = ts.tree_node_parents(model)
            okp = all(abs(parents[c]) == p for p in range(tree.node_count) for c in (tree.children_left[p], tree.children_right[p]) if c != -1)
            e.prove(okp and len(parents) == tree.node_count - 1, "tree_node_parents")
            app = tree.leaf_term(x)
            for leaf in want_leaves:
                ra = ts.tree_node_range(model, leaf)
                inbox = sx.SymBool(z3.BoolVal(True))
                for f in range(ra.shape[0]):
                    lo, hi = ra[f, 0], ra[f, 1]
                    if not (isinstance(lo, float) and lo != lo):
                        inbox = inbox & (x[f] > lo)
                    if not (isinstance(hi, float) and hi != hi):
                        inbox = inbox & (x[f] <= hi)
                e.prove(inbox == (app == leaf) if sx.is_sym(app) else inbox == sx.SymBool(z3.BoolVal(app == leaf)), "tree_node_range", detail=leaf)
            got = ts.predict_leaves(model, [x])
            e.prove_eq(int(got[0]), app, "predict_leaves")
            if cfg.get("shape2") and cfg["shape2"] != cfg["shape"]:
                tree2 = build(parse_shape(cfg["shape2"]), feats, ths, py_tree_add_node, PyTree(), cfg.get("numbering", "dfs"))
                tree2.children_left = numpy.array(tree2.children_left)
                tree2.children_right = numpy.array(tree2.children_right)
                tree2.feature = numpy.array(tree2.feature)
                tree2.threshold = sx.sarr(tree2.threshold)
                model.tree_ = tree2  # refit of the same object
                got2 = ts.predict_leaves(model, [x])
                e.prove_eq(int(got2[0]), tree2.leaf_term(x), "predict_leaves/after-refit")
                l2 = ts.tree_leave_index(model)
                e.prove(list(l2) == [i for i in range(tree2.node_count) if tree2.children_left[i] == -1], "tree_leave_index/after-refit")
        finally:
            ts.numpy = old

    eng = sx.Engine(name=f"C12{cfg}")
    eng.explore(h)
    viol = []
    for c in eng.cex[:1]:
        ok, obs = replay(cfg, c.inputs, c.label)
        viol.append(harness.violation(c.label, f"{c.label}", cfg, c.inputs, obs, ok))
    # validation of the node-table model against the compiled tree_add_node + real Tree
    validated, errors = 0, []
    try:
        real, X = _real_tree(cfg, [float(i * 2 + 1) for i in range(k)])
        pt = build(shape, feats, [float(i * 2 + 1) for i in range(k)], py_tree_add_node, PyTree(), cfg.get("numbering", "dfs"))
        if (
            list(real.tree_.children_left) == pt.children_left
            and list(real.tree_.children_right) == pt.children_right
            and [f for f in real.tree_.feature] == pt.feature
            and list(real.apply(X)) == [pt.leaf_of(r)[0] for r in X.tolist()]
        ):
            validated = 1
        elif not viol:
            errors.append(f"node-table model disagrees with the real Tree for {cfg}")
    except Exception as ex:
        errors.append(f"validation raised {type(ex).__name__}: {ex}")
    return dict(stats=eng.stats.as_dict(), violations=viol, validated=validated, errors=errors)


def _real_tree(cfg, ths):
    from sklearn.tree import DecisionTreeRegressor
    from sklearn.tree._tree import Tree

    tdm = loader.load("mltree._tree_digitize", with_ext=True)
    shape = parse_shape(cfg["shape"])
    tree = Tree(2, numpy.array([1], dtype=numpy.intp), 1)
    build(shape, cfg["feats"], ths, tdm.tree_add_node, tree, cfg.get("numbering", "dfs"))

    def depth(sh):
        return 0 if sh is None else 1 + max(depth(sh[0]), depth(sh[1]))

    tree.max_depth = depth(shape)  # _add_node does not maintain it; decision_path sizes its buffers with it
    cl = DecisionTreeRegressor()
    cl.tree_ = tree
    cl.tree_.value[:, 0, 0] = numpy.arange(tree.node_count, dtype=numpy.float64)
    cl.n_outputs = cl.n_outputs_ = 1
    cl.n_features_in_ = 2
    vals = sorted(set(ths))
    grid = sorted(set(vals + [v - 1 for v in vals] + [v + 1 for v in vals]))
    X = numpy.array([[a, b] for a in grid for b in grid], dtype=numpy.float32)
    return cl, X


def replay_struct(cfg, inputs, label):
    """first with the model's exact values (a constant such as -2 may matter), then on order-isomorphic integers"""
    k = len(cfg["feats"])
    raw = [inputs.get(f"t_{i}", Fraction(i)) for i in range(k)] + [inputs.get("x_0", Fraction(0)), inputs.get("x_1", Fraction(0))]
    exact = {v: float(v) for v in raw}
    if all(float(numpy.float32(f)) == f for f in exact.values()):
        ok, obs = _replay_struct(cfg, raw, exact, label)
        if ok:
            return ok, obs
    return _replay_struct(cfg, raw, _rank_map(raw), label)


def _replay_struct(cfg, raw, rm, label):
    ts = loader.load("mltree.tree_structure", with_ext=True)
    k = len(cfg["feats"])
    ths = [rm[v] for v in raw[:k]]
    try:
        cl, X = _real_tree(cfg, ths)
        X = numpy.vstack([X, numpy.array([[rm[raw[k]], rm[raw[k + 1]]]], dtype=numpy.float32)])
        app = cl.apply(X)
        leaves = ts.tree_leave_index(cl)
        t = cl.tree_
        want = [i for i in range(t.node_count) if t.children_left[i] == -1]
        if list(leaves) != want:
            return True, dict(tree_leave_index=list(map(int, leaves)), expected=want)
        pl = ts.predict_leaves(cl, X)
        if not numpy.array_equal(pl, app):
            i = int(numpy.nonzero(pl != app)[0][0])
            return True, dict(x=X[i].tolist(), predict_leaves=int(pl[i]), apply=int(app[i]), thresholds=ths)
        if cfg.get("shape2") and cfg["shape2"] != cfg["shape"]:
            cl2, _ = _real_tree(dict(cfg, shape=cfg["shape2"]), ths)
            cl.tree_ = cl2.tree_  # the same estimator object now holds another tree
            pl2, app2 = ts.predict_leaves(cl, X), cl2.apply(X)
            if not numpy.array_equal(pl2, app2):
                i = int(numpy.nonzero(pl2 != app2)[0][0])
                return True, dict(history="predict_leaves, refit same object (same node count), predict_leaves", x=X[i].tolist(), predict_leaves=int(pl2[i]), apply=int(app2[i]), shapes=[cfg["shape"], cfg["shape2"]])
            cl, _ = _real_tree(cfg, ths)
        for leaf in want:
            ra = ts.tree_node_range(cl, leaf)
            inbox = numpy.ones(len(X), dtype=bool)
            for f in range(ra.shape[0]):
                if not numpy.isnan(ra[f, 0]):
                    inbox &= X[:, f] > ra[f, 0]
                if not numpy.isnan(ra[f, 1]):
                    inbox &= X[:, f] <= ra[f, 1]
            if not numpy.array_equal(inbox, app == leaf):
                i = int(numpy.nonzero(inbox != (app == leaf))[0][0])
                return True, dict(leaf=int(leaf), range=ra.tolist(), x=X[i].tolist(), apply=int(app[i]), thresholds=ths, shape=cfg["shape"], feats=cfg["feats"])
    except Exception as e:
        return True, dict(raised=f"{type(e).__name__}: {e}", thresholds=ths)
    return False, "real functions agree with apply on the grid around the thresholds"


def run_config(cfg):
    return run_digitize(cfg) if cfg["kind"] == "digitize" else run_struct(cfg)


def replay(cfg, inputs, label):
    return replay_digitize(cfg, inputs, label) if cfg["kind"] == "digitize" else replay_struct(cfg, inputs, label)


def run(ctx, rep):
    loader.install(with_ext=True)
    rep.add_functions("mltree.tree_digitize", ["digitize2tree", "digitize2tree.add_root", "digitize2tree.add_nodes"])
    rep.add_functions("mltree.tree_structure", ["tree_leave_index", "tree_node_parents", "tree_find_path_to_root", "tree_node_range", "predict_leaves", "_get_tree"])
    Lmax = 8 if ctx.quick else 16
    dc = [dict(kind="digitize", L=L, asc=a) for L in range(1, Lmax + 1) for a in (True, False) if L > 1 or a]  # a single edge is "increasing" for numpy too
    sc = struct_configs(ctx.tier)
    rep.bounds = dict(bins_length=f"1..{Lmax}, both directions", tree_shapes=f"all binary shapes with <= {3 if ctx.quick else 4} internal nodes x feature assignments over 2 columns", query="one symbolic point")
    rep.assumptions = [
        "Tree / tree_add_node / DecisionTreeRegressor replaced by a node-table model routing left iff x[feature] <= threshold; validated each run against the compiled tree_add_node and the real sklearn Tree (children arrays and apply on a grid)",
        "bins strictly monotonic (documented precondition); x and the edges representable in float32 (scikit-learn casts tree inputs to float32; values changed by the cast are outside the claim)",
        "decision_path of the model returns a scipy csr_matrix like scikit-learn's",
        "counterexamples are replayed on order-isomorphic integer inputs (the code only compares values)",
    ]
    rep.outside = ["right=False (raises by design)", "non-monotonic bins", "tree_leave_neighbors", "float32 rounding of inputs", "trees with more than 4 splits / more than 2 features"]
    rep.absorb(harness.pmap(MOD, "run_config", dc), layer="digitize2tree")
    rep.absorb(harness.pmap(MOD, "run_config", sc), layer="structure utilities")

    def twin(e):
        td = loader.load("mltree.tree_digitize", with_ext=True)
        bins = e.reals("b", 3)
        e.assume(bins[0] < bins[1])
        e.assume(bins[1] < bins[2])
        x = e.real("x")
        got = _digitize_model(td, bins).predict([[x]])[0]
        e.prove_eq(got, sx.ssum([sx.sif(bins[i] <= x, 1, 0) for i in range(3)]), "twin")  # right=False semantics: wrong on the edges

    eng = sx.Engine(name="C12-twin")
    eng.explore(twin)
    rep.vacuity.append(dict(twin="tree == digitize(right=False) (false on the edges)", refuted=bool(eng.cex)))
    if not eng.cex:
        rep.error("vacuity twin was not refuted")
