"""C13 -- target transformations are undone exactly by their reciprocal.

SX.  (a) FunctionReciprocalTransformer, for EVERY name in available_fcts(): the module's
numpy is proxied so that log/exp are uninterpreted functions with the ground inverse-pair
axioms (log(exp t) = t; t > 0 => exp(log t) = t; exp t > 0; log1p t = log(1+t); expm1 t =
exp t - 1); for a symbolic y in the function's domain z3 shows
inv.transform(X, T.transform(X, y)[1])[1] == y, NaN stays NaN, X is returned untouched.
(b) PermutationReciprocalTransformer / TransformedTargetClassifier2 / ...Regressor2: the drawn
permutation is a vector of symbolic ints (Distinct, in range) realised by the engine -- every
permutation of the label codes is explored --, inner estimators are recording stubs with
symbolic outputs; round trip on labels, predict returns original labels, probability column j
belongs to classes_[j] (sorted labels, as a plain classifier orders them), also after the same
instance is refitted on another label set; the regressor predicts f^-1(g(x)) with g trained on f(y).
"""
import itertools
from fractions import Fraction

import numpy
import z3
from sklearn.base import BaseEstimator

from .. import harness, loader, sx

MOD = "vf.props.c13"

LOG = z3.Function("LOG", z3.RealSort(), z3.RealSort())
EXP = z3.Function("EXP", z3.RealSort(), z3.RealSort())


def _has_sym(a):
    if isinstance(a, numpy.ndarray):
        return (isinstance(a, sx.SArr) or a.dtype == object) and any(sx.is_sym(v) for v in numpy.ndarray.ravel(a))
    return sx.is_sym(a)


def _map(a, f, real=None):
    if real is not None and not _has_sym(a):
        # numbers only (concrete replay, or a table of functions built once and used later): the real function
        return real(numpy.asarray(a, dtype=float) if isinstance(a, numpy.ndarray) and (isinstance(a, sx.SArr) or a.dtype == object) else a)
    if isinstance(a, numpy.ndarray):
        out = numpy.empty(a.shape, dtype=object)
        for i in numpy.ndindex(a.shape):
            out[i] = f(a[i])
        return out.view(sx.SArr)
    return f(a)


def _log(v):
    if sx._isnan(v):
        return float("nan")
    e = sx.cur()
    t = sx._real(sx.term(v))
    r = LOG(t)
    e.add_definition(z3.Implies(t > 0, EXP(r) == t))
    return sx.SymReal(r)


def _exp(v):
    if sx._isnan(v):
        return float("nan")
    e = sx.cur()
    t = sx._real(sx.term(v))
    r = EXP(t)
    e.add_definition(z3.And(LOG(r) == t, r > 0))
    return sx.SymReal(r)


class _NPF(sx.Conversions):
    """numpy for sklearn_transform_inv_fct under SX"""

    def __init__(self, perm_stub=None):
        self.random = _Random(perm_stub)

    def __getattr__(self, n):
        return getattr(numpy, n)

    def log(self, a):
        return _map(a, _log, numpy.log)

    def exp(self, a):
        return _map(a, _exp, numpy.exp)

    def log1p(self, a):
        return _map(a, lambda v: _log(v + 1), numpy.log1p)

    def expm1(self, a):
        return _map(a, lambda v: _exp(v) - 1, numpy.expm1)


def _available(m):
    """the table of predefined functions, read with the module's numpy replaced by the dual proxy: an
    implementation that builds the table once (and keeps the function objects) keeps proxies that work on symbols
    and on numbers alike"""
    with harness.patched(m, numpy=_NPF()):
        return m.FunctionReciprocalTransformer.available_fcts()


class _Random:
    def __init__(self, stub):
        self.stub = stub

    def permutation(self, lin):
        return self.stub("global", lin)

    def RandomState(self, seed=None):
        outer = self

        class RS:
            def permutation(self, lin):
                return outer.stub(("seed", seed), lin)

        return RS()


DOMAIN = {"log": 0, "exp": None, "log(1+x)": -1, "log1p": -1, "exp(x)-1": None, "expm1": None}


def run_fct(cfg):
    m = loader.load("mlmodel.sklearn_transform_inv_fct")
    name = cfg["name"]

    def h(e):
        opts = _available(m)
        e.prove(name in opts, "name-is-predefined")
        n = cfg["n"]
        lo = DOMAIN.get(name)
        if cfg.get("int_targets"):
            # count data: an integer-typed target vector (values symbolic ints in the domain)
            ys = [e.int(f"y_{i}", 1, 50) for i in range(n)]
            y = sx.int_array(ys)
        else:
            y = e.reals("y", n)
            for i in range(n):
                if lo is not None:
                    e.assume(y[i] > lo)
        if cfg["nan"]:
            y = sx.sarr(list(y[:-1]) + [float("nan")])
        X = e.reals("X", n, 1)
        with harness.patched(m, numpy=_NPF()):
            T = m.FunctionReciprocalTransformer(name)
            r = T.fit(X, y)
            e.prove(r is T, "fit-returns-self")
            X1, y1 = T.transform(X, y)
            inv = T.get_fct_inv()
            X2, y2 = inv.transform(X1, y1)
            Xn, yn = T.transform(X, None)
        e.prove(X1 is X and X2 is X and Xn is X and yn is None, "features-untouched")
        for i in range(n):
            if sx._isnan(y[i]):
                e.prove(sx._isnan(y2[i]), "nan-stays-nan")
            else:
                e.prove(not sx._isnan(y2[i]), "nan-stays-nan")
                e.prove_eq(y2[i], y[i], "roundtrip")

    eng = sx.Engine(name=f"C13{cfg}")
    eng.explore(h)
    viol = []
    for c in eng.cex[:1]:
        ok, obs = replay_fct(cfg, c.inputs, c.label)
        viol.append(harness.violation(c.label, f"{c.label}/{name}", cfg, c.inputs, obs, ok))
    return dict(stats=eng.stats.as_dict(), violations=viol)


def replay_fct(cfg, inputs, label):
    m = loader.load("mlmodel.sklearn_transform_inv_fct")
    name = cfg["name"]
    lo = DOMAIN.get(name)
    base = numpy.array([0.5, 1.5, 3.0, 0.01])
    vals = [float(inputs[f"y_{i}"]) for i in range(cfg["n"]) if f"y_{i}" in inputs]
    vals = [v for v in vals if abs(v) < 50]
    y = numpy.array(vals + base.tolist())
    if lo is not None:
        y = y[y > lo]
    y = numpy.concatenate([y, [numpy.nan]])
    if cfg.get("int_targets"):
        y = numpy.array([1, 2, 3, 4, 5, 7], dtype=numpy.int64)
        X = numpy.arange(len(y) * 1.0).reshape(-1, 1)
        T = m.FunctionReciprocalTransformer(name).fit(X, y)
        _, y1 = T.transform(X, y)
        _, y2 = T.get_fct_inv().transform(X, y1)
        if not numpy.allclose(numpy.asarray(y2, dtype=float), y, rtol=1e-9):
            return True, dict(fct=name, integer_targets=y.tolist(), transformed=numpy.asarray(y1).tolist(), roundtrip=numpy.asarray(y2).tolist())
        return False, "round trip exact on integer targets"
    X = numpy.arange(len(y) * 1.0).reshape(-1, 1)
    T = m.FunctionReciprocalTransformer(name).fit(X, y)
    X1, y1 = T.transform(X, y)
    X2, y2 = T.get_fct_inv().transform(X1, y1)
    if X2 is not X or not numpy.isnan(y2[-1]):
        return True, dict(problem="X replaced or NaN lost")
    if not numpy.allclose(y2[:-1], y[:-1], rtol=1e-9, atol=1e-12):
        return True, dict(fct=name, inverse_used=str(T.fct_inv_), y=y[:-1].tolist(), roundtrip=y2[:-1].tolist())
    return False, "round trip exact to 1e-9"


# ------------------------------------------------------------------ permutations


def _perm_stub(e, log):
    def stub(src, lin):
        K = len(lin)
        k = len(log)
        vs = [e.int(f"perm{k}_{i}", 0, K - 1) for i in range(K)]
        if K > 1:
            e.add_definition(z3.Distinct(*[v.t for v in vs]))
        out = numpy.array([e.realize(v) for v in vs])
        log.append((src, out.tolist()))
        return out

    return stub


class StubClf(BaseEstimator):
    """recording classifier; clonable; classes_ = sorted(unique(y seen)); symbolic outputs"""

    registry = []

    def __init__(self, tag=0):
        self.tag = tag

    def fit(self, X, y, sample_weight=None):
        StubClf.registry.append(self)
        self.seen_ = (X, numpy.array(y), sample_weight)
        self.classes_ = numpy.array(sorted(set(numpy.array(y).tolist())))
        return self

    def predict(self, X):
        e = sx.cur()
        K = len(self.classes_)
        k = len(StubClf.registry)
        self.pred_ = numpy.array([self.classes_[e.realize(e.int(f"code{k}_{id(self) % 997}_{i}", 0, K - 1))] for i in range(len(X))])
        return self.pred_

    def predict_proba(self, X):
        e = sx.cur()
        self.P_ = e.reals(f"P{len(StubClf.registry)}", len(X), len(self.classes_))
        return self.P_


class StubReg(BaseEstimator):
    registry = []

    def __init__(self, tag=0):
        self.tag = tag

    def fit(self, X, y, sample_weight=None):
        StubReg.registry.append(self)
        self.seen_ = (X, y, sample_weight)
        return self

    def predict(self, X):
        self.g_ = sx.cur().reals("g", len(X))
        return self.g_


LABELSETS = {
    "012": [0, 1, 2],
    "539": [5, 3, 9],
    "5-20-100": [20, 5, 100],
    "neg": [3, -2, -1],
    "str": ["b", "a", "c"],
    "01": [1, 0],
    "4": [7, 2, 11, 4],
    "float-nan": [1.5, 0.5, 2.5],
}


def _yarr(labels, reps=1, with_nan=False):
    seq = list(labels) * reps
    if with_nan:
        seq = seq + [float("nan")]
    return numpy.array(seq)


def run_perm(cfg):
    m = loader.load("mlmodel.sklearn_transform_inv_fct")
    tp = loader.load("mlmodel.target_predictors")
    labels = LABELSETS[cfg["labels"]]
    labels2 = LABELSETS[cfg["labels2"]] if cfg.get("labels2") else None
    K = len(labels)

    def h(e):
        log = []
        npf = _NPF(_perm_stub(e, log))
        StubClf.registry = []
        with harness.patched(m, numpy=npf):
            # -- the transformer alone
            y = _yarr(labels, 2, with_nan=cfg["labels"] == "float-nan")
            X = numpy.arange(len(y) * 1.0).reshape(-1, 1)
            T = m.PermutationReciprocalTransformer(random_state=cfg["seed"])
            T.fit(X, y)
            X1, y1 = T.transform(X, y)
            inv = T.get_fct_inv()
            X2, y2 = inv.transform(X1, y1)
            e.prove(X1 is X and X2 is X, "features-untouched")
            same = all((a == b) or (a != a and b != b) for a, b in zip(y2.tolist(), y.tolist()))
            e.prove(same, "perm/roundtrip")
            codes = sorted(set(v for v in y1.tolist() if v == v))
            e.prove(codes == list(range(K)), "perm/codes-are-0..K-1")
            e.prove(log and log[-1][0] == ("global" if cfg["seed"] is None else ("seed", cfg["seed"])), "perm/uses-its-random_state")
            return

    def h2(e):
        log = []
        npf = _NPF(_perm_stub(e, log))
        StubClf.registry = []
        with harness.patched(m, numpy=npf):
            # -- the classifier, fitted once or twice on the same instance
            tobj = m.PermutationReciprocalTransformer(random_state=None) if cfg.get("tobj") else None
            clf = tp.TransformedTargetClassifier2(classifier=StubClf(), transformer=tobj if tobj is not None else "permute")
            history = [labels] + ([labels2] if labels2 else [])
            for step, labs in enumerate(history):
                tag = "" if step == 0 else "/after-refit"
                yk = _yarr(labs, 2)
                Xk = numpy.arange(len(yk) * 1.0).reshape(-1, 1)
                # fit parameters: constant (not 1) or varying weights reach the inner classifier as given
                wk = None if not cfg.get("clfw") else (numpy.full(len(yk), 2.0) if cfg["clfw"] == "const" else numpy.arange(len(yk)) + 1.0)
                r = clf.fit(Xk, yk) if wk is None else clf.fit(Xk, yk, sample_weight=wk)
                e.prove(r is clf, "clf/fit-returns-self")
                inner = clf.classifier_
                e.prove(inner.seen_[2] is wk or (wk is not None and inner.seen_[2] is not None and numpy.array_equal(inner.seen_[2], wk)), "clf/trained-with-the-caller's-sample_weight" + tag)
                if tobj is not None:
                    e.prove(clf.transformer_ is not tobj and not hasattr(tobj, "permutation_"), "clf/the-transformer-parameter-is-cloned-never-fitted")
                perm = dict(clf.transformer_.permutation_)
                # trained on the permuted target, same features
                e.prove(inner.seen_[0] is Xk and inner.seen_[1].tolist() == [perm[v] for v in yk.tolist()], "clf/trained-on-permuted-target" + tag)
                nq = 2 if (step == 0 and not labels2) else 1  # query rows (each forks over the K predicted codes)
                Xq = numpy.arange(nq * 1.0).reshape(-1, 1)
                pred = clf.predict(Xq)
                invp = {v: k for k, v in perm.items()}
                e.prove(pred.tolist() == [invp[c] for c in inner.pred_.tolist()], "clf/predict-returns-original-labels" + tag)
                proba = clf.predict_proba(Xq)
                srt = sorted(labs)
                cls = list(clf.classes_.tolist() if hasattr(clf.classes_, "tolist") else clf.classes_)
                okcols = proba.shape == (nq, len(labs))
                e.prove(okcols, "clf/proba-shape" + tag)
                if okcols:
                    for j, lab in enumerate(srt):
                        col = list(inner.classes_.tolist()).index(perm[lab])
                        for i in range(nq):
                            # column j is the probability of the j-th label in sorted order (a plain classifier's layout)
                            e.prove_eq(proba[i, j], inner.P_[i, col], "clf/proba-column-of-sorted-label" + tag)
                e.prove(cls == srt, "clf/classes_[j]-labels-proba-column-j" + tag)

    eng = sx.Engine(name=f"C13{cfg}")
    eng.stop_on_cex = False

    def on_exc(e, exc):
        e.prove(False, "perm/raises" if cfg["part"] == "transformer" else "clf/raises", detail=f"{type(exc).__name__}: {exc}")

    eng.explore(h if cfg["part"] == "transformer" else h2, on_exception=on_exc)
    viol, seen = [], set()
    for c in eng.cex:
        sig = f"{c.label}" + ("/string-labels" if isinstance(labels[0], str) or (labels2 and isinstance(labels2[0], str)) else "")
        if sig in seen:
            continue
        seen.add(sig)
        ok, obs = replay_perm(cfg, c.inputs, c.label)
        viol.append(harness.violation(c.label, sig, cfg, c.inputs, obs, ok))
    return dict(stats=eng.stats.as_dict(), violations=viol)


def _seed_for(m, labels, wanted):
    """a random_state whose draw is the wanted permutation (real NumPy)"""
    for s in range(2000):
        if numpy.random.RandomState(s).permutation(numpy.arange(len(labels))).tolist() == list(wanted):
            return s
    return None


def replay_perm(cfg, inputs, label):
    try:
        return _replay_perm(cfg, inputs, label)
    except Exception as ex:  # the real code raising on a valid label set
        return True, dict(labels=cfg["labels"], labels2=cfg.get("labels2"), raised=f"{type(ex).__name__}: {str(ex)[:200]}")


def _replay_perm(cfg, inputs, label):
    from sklearn.linear_model import LogisticRegression

    if "transformer-parameter-is-cloned" in label:
        return _replay_cloned(label)

    m = loader.load("mlmodel.sklearn_transform_inv_fct")
    tp = loader.load("mlmodel.target_predictors")
    labels = LABELSETS[cfg["labels"]]
    K = len(labels)
    wanted = [int(inputs.get(f"perm0_{i}", i)) for i in range(K)]
    rng = numpy.random.RandomState(0)
    if label.startswith("perm/") or label == "features-untouched":
        seed = _seed_for(m, labels, wanted)
        y = _yarr(labels, 2, with_nan=cfg["labels"] == "float-nan")
        X = numpy.arange(len(y) * 1.0).reshape(-1, 1)
        T = m.PermutationReciprocalTransformer(random_state=seed)
        T.fit(X, y)
        X1, y1 = T.transform(X, y)
        X2, y2 = T.get_fct_inv().transform(X1, y1)
        same = all((a == b) or (a != a and b != b) for a, b in zip(y2.tolist(), y.tolist()))
        if not same or X2 is not X:
            return True, dict(y=y.tolist(), roundtrip=y2.tolist(), seed=seed)
        return False, "round trip ok"
    # classifier: real LogisticRegression (label-permutation equivariant up to solver noise)
    if label == "clf/raises":
        try:
            for labs in [labels] + ([LABELSETS[cfg["labels2"]]] if cfg.get("labels2") else []):
                yk = numpy.array(list(labs) * 4)
                Xk = numpy.arange(len(yk) * 1.0).reshape(-1, 1) % len(labs) + rng.rand(len(yk), 1) * 0.1
                clf = tp.TransformedTargetClassifier2(classifier=LogisticRegression(), transformer="permute").fit(Xk, yk)
                clf.predict(Xk)
                clf.predict_proba(Xk)
        except Exception as ex:
            return True, dict(labels=list(map(str, labs)), raised=f"{type(ex).__name__}: {str(ex)[:200]}")
        return False, "no exception"
    history = [labels] + ([LABELSETS[cfg["labels2"]]] if cfg.get("labels2") else [])
    if "sample_weight" in label:
        # a weight-scale sensitive learner (strong regularisation): constant weights 6.0 are not weights 1.0
        yk = numpy.array(list(labels) * 8)
        centers = rng.randn(len(labels), 2)
        Xk = numpy.vstack([centers[labels.index(v)] + rng.randn(2) for v in yk.tolist()])
        wk = numpy.full(len(yk), 6.0) if cfg.get("clfw") == "const" else numpy.arange(len(yk)) % 5 + 1.0
        clf = tp.TransformedTargetClassifier2(classifier=LogisticRegression(C=0.02), transformer=m.PermutationReciprocalTransformer(random_state=0)).fit(Xk, yk, sample_weight=wk)
        plain = LogisticRegression(C=0.02).fit(Xk, yk, sample_weight=wk)
        P1, P0 = clf.predict_proba(Xk), plain.predict_proba(Xk)
        if not numpy.allclose(P1, P0, atol=1e-3):
            return True, dict(sample_weight=wk[:6].tolist(), proba_row0=P1[0].tolist(), plain_row0_with_the_same_weights=P0[0].tolist())
        return False, "weighted fit agrees with the plain weighted classifier"
    for seed in range(40):
        clf = tp.TransformedTargetClassifier2(classifier=LogisticRegression(C=10.0, max_iter=500), transformer=m.PermutationReciprocalTransformer(random_state=seed))
        for step, labs in enumerate(history):
            centers = rng.randn(len(labs), 2) * 6
            yk = numpy.array(list(labs) * 8)
            Xk = numpy.vstack([centers[labs.index(v)] + rng.randn(2) * 0.3 for v in yk.tolist()])
            clf.fit(Xk, yk)
            plain = LogisticRegression(C=10.0, max_iter=500).fit(Xk, yk)
            p1, p0 = clf.predict(Xk), plain.predict(Xk)
            if p1.tolist() != p0.tolist():
                return True, dict(step=step, seed=seed, labels=list(map(str, labs)), predict=p1[:6].tolist(), plain=p0[:6].tolist())
            P1, P0 = clf.predict_proba(Xk), plain.predict_proba(Xk)
            if P1.shape != P0.shape or not numpy.allclose(P1, P0, atol=5e-2):
                return True, dict(step=step, seed=seed, labels=list(map(str, labs)), proba_row0=P1[0].tolist(), plain_row0=P0[0].tolist(), permutation=str(clf.transformer_.permutation_))
            cls = list(clf.classes_.tolist())
            if cls != list(plain.classes_.tolist()):
                return True, dict(step=step, seed=seed, classes_=list(map(str, cls)), proba_columns_are=list(map(str, plain.classes_.tolist())), permutation=str(clf.transformer_.permutation_))
    return False, "agrees with the plain classifier for 40 seeds"


def run_reg(cfg):
    m = loader.load("mlmodel.sklearn_transform_inv_fct")
    tp = loader.load("mlmodel.target_predictors")
    name = cfg["name"]

    def h(e):
        n = 2
        y = e.reals("y", n)
        lo = DOMAIN.get(name)
        for i in range(n):
            if lo is not None:
                e.assume(y[i] > lo)
        X = e.reals("X", n, 1)
        w = e.reals("w", n) if cfg["weighted"] else None
        StubReg.registry = []
        with harness.patched(m, numpy=_NPF()):
            tobj = m.FunctionReciprocalTransformer(name) if cfg["weighted"] else None
            reg = tp.TransformedTargetRegressor2(regressor=StubReg(), transformer=tobj if tobj is not None else name)
            r = reg.fit(X, y, sample_weight=w)
            e.prove(r is reg, "reg/fit-returns-self")
            if tobj is not None:
                e.prove(reg.transformer_ is not tobj and not hasattr(tobj, "fct_"), "reg/the-transformer-parameter-is-cloned-never-fitted")
            inner = reg.regressor_
            e.prove(inner is not reg.regressor and inner.seen_[0] is X and inner.seen_[2] is w, "reg/inner-gets-same-X-and-weights")
            T = m.FunctionReciprocalTransformer(name).fit()
            fy = T.transform(X, y)[1]
            for i in range(n):
                e.prove_eq(inner.seen_[1][i], fy[i], "reg/trained-on-f(y)")
            Xq = e.reals("q", 2, 1)
            pred = reg.predict(Xq)
            g = inner.g_
            # f^-1(g): g is in f's range when it comes from a model trained on f(y); take g = f(u)
            u = e.reals("u", 2)
            for i in range(2):
                if lo is not None:
                    e.assume(u[i] > lo)
            fu = T.transform(None, u)[1]
            for i in range(2):
                e.assume(g[i] == fu[i])
                e.prove_eq(pred[i], u[i], "reg/predict=f^-1(g(x))")

    eng = sx.Engine(name=f"C13{cfg}")
    eng.explore(h)
    viol = []
    for c in eng.cex[:1]:
        ok, obs = replay_reg(cfg, c.inputs, c.label)
        viol.append(harness.violation(c.label, f"{c.label}/{name}", cfg, c.inputs, obs, ok))
    return dict(stats=eng.stats.as_dict(), violations=viol)


def _replay_cloned(label):
    """real estimators: the transformer object given as a parameter must be cloned, never fitted"""
    from sklearn.linear_model import LinearRegression, LogisticRegression

    tp = loader.load("mlmodel.target_predictors")
    m = loader.load("mlmodel.sklearn_transform_inv_fct")
    X = numpy.arange(12.0).reshape(-1, 1)
    if label.startswith("reg/"):
        t = m.FunctionReciprocalTransformer("log")
        est = tp.TransformedTargetRegressor2(regressor=LinearRegression(), transformer=t).fit(X, numpy.exp(X.ravel() / 6))
        fitted = hasattr(t, "fct_")
    else:
        t = m.PermutationReciprocalTransformer(random_state=0)
        est = tp.TransformedTargetClassifier2(classifier=LogisticRegression(), transformer=t).fit(X, numpy.array([0, 1, 2] * 4))
        fitted = hasattr(t, "permutation_")
    if est.transformer_ is t or fitted:
        return True, dict(transformer_is_the_parameter_object=est.transformer_ is t, parameter_object_fitted=fitted)
    return False, "the parameter object is cloned"


def replay_reg(cfg, inputs, label):
    from sklearn.linear_model import LinearRegression

    if "transformer-parameter-is-cloned" in label:
        return _replay_cloned(label)

    tp = loader.load("mlmodel.target_predictors")
    m = loader.load("mlmodel.sklearn_transform_inv_fct")
    name = cfg["name"]
    X = numpy.arange(1, 7, dtype=float).reshape(-1, 1) / 4
    f = _available(m)[name][0]
    # a target that f maps to a line: y = f^-1(a*x+b), computed with the independent numpy inverse
    inv_np = {"log": numpy.exp, "exp": numpy.log, "log(1+x)": numpy.expm1, "log1p": numpy.expm1, "exp(x)-1": numpy.log1p, "expm1": numpy.log1p}[name]
    lin = 0.3 * X.ravel() + 0.2
    y = inv_np(lin)
    kw = dict(sample_weight=numpy.array([1.0, 2.0, 0.5, 3.0, 1.5, 2.5])) if cfg.get("weighted") else {}
    reg = tp.TransformedTargetRegressor2(regressor=LinearRegression(), transformer=name).fit(X, y, **kw)
    pred = reg.predict(X)
    if not numpy.allclose(pred, y, rtol=1e-8):
        return True, dict(transformer=name, y=y.tolist(), predict=pred.tolist())
    return False, "predict == f^-1(g(x))"


def run_config(cfg):
    return dict(fct=run_fct, perm=run_perm, reg=run_reg)[cfg["kind"]](cfg)


def replay(cfg, inputs, label):
    return dict(fct=replay_fct, perm=replay_perm, reg=replay_reg)[cfg["kind"]](cfg, inputs, label)


def configs(tier):
    m = loader.load("mlmodel.sklearn_transform_inv_fct")
    names = sorted(_available(m))
    out = []
    for name in names:
        for nan in (False, True):
            out.append(dict(kind="fct", name=name, n=2 if tier == "quick" else 3, nan=nan))
        out.append(dict(kind="fct", name=name, n=2, nan=False, int_targets=True))
        for weighted in (False, True):
            out.append(dict(kind="reg", name=name, weighted=weighted))
    sets = ["012", "539", "5-20-100", "neg", "str", "01", "float-nan"] + ([] if tier == "quick" else ["4"])
    for ls in sets:
        for seed in (None, 3):
            out.append(dict(kind="perm", part="transformer", labels=ls, labels2=None, seed=seed))
        if ls != "float-nan":
            out.append(dict(kind="perm", part="classifier", labels=ls, labels2=None, seed=None))
            if ls == "012":
                for clfw in ("const", "var"):
                    out.append(dict(kind="perm", part="classifier", labels=ls, labels2=None, seed=None, clfw=clfw))
            if ls == "539":
                out.append(dict(kind="perm", part="classifier", labels=ls, labels2=None, seed=None, tobj=True))
    # history: the same classifier instance refitted on another label set (other size / other labels)
    for a, b in (("012", "539"), ("539", "01"), ("01", "neg"), ("neg", "5-20-100")) + ((("4", "012"), ("012", "4")) if tier != "quick" else ()):
        out.append(dict(kind="perm", part="classifier", labels=a, labels2=b, seed=None))
    return out


def run(ctx, rep):
    rep.add_functions("mlmodel.sklearn_transform_inv_fct", ["FunctionReciprocalTransformer.available_fcts", "FunctionReciprocalTransformer.__init__", "FunctionReciprocalTransformer.fit", "FunctionReciprocalTransformer.transform", "FunctionReciprocalTransformer.get_fct_inv", "PermutationReciprocalTransformer.fit", "PermutationReciprocalTransformer.transform", "PermutationReciprocalTransformer.get_fct_inv"])
    rep.add_functions("mlmodel.target_predictors", ["_common_get_transform", "TransformedTargetRegressor2.fit", "TransformedTargetRegressor2.predict", "TransformedTargetClassifier2.fit", "TransformedTargetClassifier2._apply", "TransformedTargetClassifier2.predict", "TransformedTargetClassifier2.predict_proba", "TransformedTargetClassifier2.classes_"])
    cfgs = configs(ctx.tier)
    rep.bounds = dict(function_names="every key of available_fcts() (read from the working tree)", targets="2/3 symbolic reals in the domain, optional NaN", label_sets=sorted(set(c["labels"] for c in cfgs if c["kind"] == "perm")), permutations="all K! (K<=3 quick, <=4 thorough) by realisation of symbolic draws", history="fit / predict / refit on another label set / predict")
    rep.assumptions = [
        "numpy.log/exp/log1p/expm1 are uninterpreted functions with ground inverse-pair axioms (float round-off of exp(log y) is outside the claim)",
        "the random permutation is an arbitrary permutation (symbolic Distinct ints, realised): numpy.random[.RandomState].permutation stubbed",
        "inner regressor/classifier are recording stubs (clonable BaseEstimator): classes_ = sorted codes seen, symbolic predictions/probabilities",
        "label sets are concrete (dictionary keys); a plain classifier orders probability columns by sorted label",
    ]
    rep.outside = ["closest=True nearest-neighbour search (kd-tree)", "float round-off", "decision_function of binary classifiers (1-D scores)"]
    rep.absorb(harness.pmap(MOD, "run_config", cfgs), layer="functions+permutations+predictors")

    def twin(e):
        m = loader.load("mlmodel.sklearn_transform_inv_fct")
        y = e.real("y")
        e.assume(y > 0)
        with harness.patched(m, numpy=_NPF()):
            z = m.numpy.log(sx.sarr([y]))
            back = m.numpy.log(z)  # log is not its own inverse
        e.prove_eq(back[0], y, "twin")

    eng = sx.Engine(name="C13-twin")
    eng.explore(twin)
    rep.vacuity.append(dict(twin="log(log y) == y (false)", refuted=bool(eng.cex)))
    if not eng.cex:
        rep.error("vacuity twin was not refuted")
