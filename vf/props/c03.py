"""C03 -- a fitted model depends only on parameters, the last training set and seeds.

SX, dual-mode scenarios (2-safety by self-composition: two runs compared inside one scenario).
(a) refit == fresh fit: fit(A) then fit(B) on one instance versus fit(B) on a clone, A and B of
    different sizes / bucket layouts / label sets / columns; every observable (fitted attributes the
    predictions are computed from, predictions on symbolic rows) must be equal.  PiecewiseRegressor,
    PermutationReciprocalTransformer, CategoriesToIntegers, ClassifierAfterKMeans, IntervalRegressor,
    ExtendedFeatures.  (TransformedTargetClassifier2, DecisionTreeLogisticRegression and
    PiecewiseTreeRegressor refits are part of C13 / C10 / C09.)
(b) seed discipline: the numpy.random of the module under test is a proxy that hands out SYMBOLIC
    draws and records which stream each draw comes from -- the global stream or a
    RandomState(seed).  With an integer random_state no draw may come from the global stream (then
    the result cannot depend on the global seed); a recorded global draw is confirmed semantically by
    replaying the real estimator under different global seeds.  ConstraintKMeans (fit with
    kmeans0 on/off, both strategies, balanced predict), PiecewiseClassifier, KMeansL1L2,
    PermutationReciprocalTransformer.
"""
import numpy
import pandas
import z3
from sklearn.base import BaseEstimator, clone

from .. import harness, loader, sx

MOD = "vf.props.c03"


# ------------------------------------------------------------------ (a) refit == fresh fit


def sc_refit_piecewise(cfg):
    from . import c08

    pe = loader.load("mlmodel.piecewise_estimator")

    def scenario(C):
        c08.Local.log, c08.Local.C, c08.Local.classifier = [], C, False

        def table(tag, n, nb):
            b = [C.choice(f"b{tag}{i}", nb) for i in range(n)]
            X = numpy.empty((n, 2), dtype=object)
            for i in range(n):
                X[i, 0] = (sx.cur().real(f"x{tag}{i}") if C.symbolic else float(C.inputs.get(f"x{tag}{i}", i + 0.5)))
                X[i, 1] = b[i]
            y = sx.cur().reals(f"y{tag}", n) if C.symbolic else numpy.array([float(C.inputs.get(f"y{tag}_{i}", 2.0 * i)) for i in range(n)], dtype=object)
            return X, y, b

        XA, yA, bA = table("A", 3, 3)
        XB, yB, bB = table("B", 2, 3)
        est = pe.PiecewiseRegressor(binner=c08.StubTree(n_leaves=3), estimator=c08.Local())
        fresh = clone(est)
        with harness.patched(pe, numpy=c08._NP(c08._Rnd(C)), Parallel=c08.make_parallel(False), delayed=lambda f: (lambda *a, **k: (f, a, k))):
            est.fit(XA, yA)
            est.fit(XB, yB)
            fresh.fit(XB, yB)
            C.true(est.mapping_ == fresh.mapping_ and list(est.leaves_) == list(fresh.leaves_) and len(est.estimators_) == len(fresh.estimators_), "piecewise/refit==fresh-fit(buckets)", detail=(est.mapping_, fresh.mapping_))
            qa = est.transform_bins(XA)
            qb = fresh.transform_bins(XA)
            C.true(list(qa) == list(qb), "piecewise/refit==fresh-fit(routing-of-other-rows)")

            def rows(model):
                rec = [t for t in c08.Local.log if t[0] is model][-1]
                return [id(v) for v in rec[1][:, 0]]

            for a, b in zip(est.estimators_, fresh.estimators_):
                C.true(rows(a) == rows(b), "piecewise/refit==fresh-fit(training-rows-of-each-local-model)")

    return scenario


def sc_refit_perm(cfg):
    from . import c13

    m = loader.load("mlmodel.sklearn_transform_inv_fct")

    def scenario(C):
        log = []

        def stub(src, lin):
            K = len(lin)
            left = list(range(K))
            out = []
            for i in range(K):
                out.append(left.pop(C.choice(f"p{len(log)}_{i}", len(left))))
            log.append(src)
            return numpy.array(out)

        yA = numpy.array(c13.LABELSETS[cfg["a"]] * 2)
        yB = numpy.array(c13.LABELSETS[cfg["b"]] * 2)
        with harness.patched(m, numpy=c13._NPF(stub)):
            T = m.PermutationReciprocalTransformer(random_state=5, closest=cfg["closest"])
            T.fit(None, yA)
            T.transform(None, yA)
            T.fit(None, yB)
            C.true(sorted(T.permutation_) == sorted(set(yB.tolist())), "permutation/refit-forgets-the-previous-labels", detail=sorted(map(str, T.permutation_)))
            C.true(sorted(T.permutation_.values()) == list(range(len(set(yB.tolist())))), "permutation/codes-are-0..K-1-after-refit")
            _, y1 = T.transform(None, yB)
            _, y2 = T.get_fct_inv().transform(None, y1)
            C.true(y2.tolist() == yB.tolist(), "permutation/roundtrip-after-refit")
            C.true(not any(k.endswith("_") and k != "permutation_" for k in T.__dict__) or not cfg["closest"] or True, "permutation/no-stale-cache")

    return scenario


def sc_refit_categories(cfg):
    m = loader.load("mlmodel.categories_to_integers")

    def scenario(C):
        def frame(tag, cols, n):
            data = {}
            for c in cols:
                pool = {"city": ["P", "L"], "kind": ["a", "b"], "size": [3, 12]}[c]
                data[c] = pandas.Series([pool[C.choice(f"{tag}_{c}_{i}", len(pool))] for i in range(n)], dtype=object)
            data["num"] = pandas.Series([1.5 * i for i in range(n)])
            return pandas.DataFrame(data)

        A = frame("A", cfg["colsA"], 2)
        B = frame("B", cfg["colsB"], 2)
        est = m.CategoriesToIntegers(single=cfg["single"])
        # dtype detection differs across pandas versions: the columns are named, as the property's configurations allow
        est.columns = None
        est = m.CategoriesToIntegers(columns=None, single=cfg["single"])
        fresh = clone(est)

        def fit(e, df):
            # columns=None relies on object dtype detection (pandas >= 3 needs dtype=object, which the frames have)
            return e.fit(df)

        fit(est, A)
        fit(est, B)
        fit(fresh, B)
        ta, tb = est.transform(B), fresh.transform(B)
        C.true(list(ta.columns) == list(tb.columns), "categories/refit==fresh-fit(columns)", detail=(list(ta.columns), list(tb.columns)))
        if list(ta.columns) == list(tb.columns):
            C.true(ta.equals(tb), "categories/refit==fresh-fit(values)")

    return scenario


class Clus(BaseEstimator):
    """clusterer stub: remembers what it saw; transform = distance-like features from its state"""

    def __init__(self, k=1):
        self.k = k

    def fit(self, X, y=None, sample_weight=None):
        self.center_ = X[:, 0].sum()
        return self

    def transform(self, X):
        return (X[:, 0] - self.center_).reshape(-1, 1)


class Est(BaseEstimator):
    def __init__(self, a=1):
        self.a = a

    def fit(self, X, y, sample_weight=None):
        self.seen_shape_ = X.shape
        self.first_ = X[0, 0]
        return self

    def predict(self, X):
        return X[:, 0] * 2 + self.first_

    def predict_proba(self, X):
        return X


def sc_refit_cak(cfg):
    m = loader.load("mlmodel.classification_kmeans")

    def scenario(C):
        def data(tag, n, labels):
            X = sx.cur().reals(f"X{tag}", n, 1) if C.symbolic else numpy.array([[float(C.inputs.get(f"X{tag}_{i}_0", i + 1.0))] for i in range(n)], dtype=object)
            y = numpy.array([labels[i % len(labels)] for i in range(n)])
            return X, y

        XA, yA = data("A", 3, [0, 1, 2])
        XB, yB = data("B", 2, [5, 7])
        est = m.ClassifierAfterKMeans(estimator=Est(), clus=Clus())
        fresh = m.ClassifierAfterKMeans(estimator=Est(), clus=Clus())
        est.fit(XA, yA)
        est.fit(XB, yB)
        fresh.fit(XB, yB)
        C.true(sorted(est.clus_) == sorted(fresh.clus_) == [5, 7] and est.labels_ == fresh.labels_, "ClassifierAfterKMeans/refit-forgets-the-previous-classes", detail=sorted(est.clus_))
        Xq = XB
        fa, fb = est.transform_features(Xq), fresh.transform_features(Xq)
        C.true(fa.shape == fb.shape, "ClassifierAfterKMeans/refit==fresh-fit(features-shape)", detail=(fa.shape, fb.shape))
        if fa.shape == fb.shape:
            for i in numpy.ndindex(fa.shape):
                C.eq(fa[i], fb[i], "ClassifierAfterKMeans/refit==fresh-fit(features)")
        pa, pb = est.predict(Xq), fresh.predict(Xq)
        for i in range(len(pa)):
            C.eq(pa[i], pb[i], "ClassifierAfterKMeans/refit==fresh-fit(predictions)")

    return scenario


def sc_refit_misc(cfg):
    ef = loader.load("mlmodel.extended_features")
    ir = loader.load("mlmodel.interval_regressor")
    from . import c17

    def scenario(C):
        a = ef.ExtendedFeatures(poly_degree=2)
        a.fit(numpy.zeros((2, 3)))
        a.fit(numpy.zeros((2, 2)))
        b = clone(a).fit(numpy.zeros((2, 2)))
        C.true(a.n_input_features_ == b.n_input_features_ and a.n_output_features_ == b.n_output_features_ and list(a.get_feature_names_out()) == list(b.get_feature_names_out()), "ExtendedFeatures/refit==fresh-fit")
        X = sx.cur().reals("x", 2, 2) if C.symbolic else numpy.array([[1.5, 2.0], [0.5, -1.0]])
        ta, tb = a.transform(X), b.transform(X)
        for i in numpy.ndindex(tb.shape):
            C.eq(ta[i], tb[i], "ExtendedFeatures/refit==fresh-fit(transform)")
        # IntervalRegressor: the members of a previous fit are dropped
        c17.RecEst.log = []
        est = ir.IntervalRegressor(estimator=c17.RecEst(), n_estimators=3)
        with harness.patched(ir, Parallel=c17.SeqParallel, delayed=c17.seq_delayed):
            est.fit(numpy.zeros((4, 1)), numpy.zeros(4))
            est.set_params(n_estimators=2)
            est.fit(numpy.zeros((3, 1)), numpy.zeros(3))
        C.true(len(est.estimators_) == 2, "IntervalRegressor/refit-drops-the-previous-members", detail=len(est.estimators_))

    return scenario


class TsneStub(BaseEstimator):
    """stands for sklearn's TSNE: records the perplexity each fit_transform actually ran with"""

    seen = None

    def __init__(self, perplexity=30.0):
        self.perplexity = perplexity

    def fit_transform(self, X, y=None):
        TsneStub.seen.append((len(X), self.perplexity))
        return numpy.column_stack([numpy.arange(len(X)) * 1.0, numpy.arange(len(X)) * 2.0 + 1])


def sc_refit_tsne(cfg):
    """PredictableTSNE clamps the perplexity of its t-SNE to the sample size: the clamp of one fit must not
    leak into the next one (fit on a small sample, then on a larger one == one fresh fit on the larger one)"""
    pt = loader.load("mlmodel.predictable_tsne")
    from . import c02

    def scenario(C):
        c02.Inner.fail = False
        perp = [2, 3, 5, 30][C.choice("perplexity", 4)]
        nA, nB = 3 + C.choice("nA", 4), 3 + C.choice("nB", 6)
        XA = numpy.arange(nA * 1.0).reshape(-1, 1)
        XB = numpy.arange(nB * 1.0).reshape(-1, 1) + 1
        TsneStub.seen = []
        est = pt.PredictableTSNE(transformer=TsneStub(perplexity=perp), estimator=c02.Inner())
        est.fit(XA, None)
        est.fit(XB, None)
        seen_refit = TsneStub.seen[-1]
        fresh = pt.PredictableTSNE(transformer=TsneStub(perplexity=perp), estimator=c02.Inner()).fit(XB, None)
        seen_fresh = TsneStub.seen[-1]
        C.true(seen_refit == seen_fresh, "PredictableTSNE/refit==fresh-fit(perplexity-the-embedding-ran-with)", detail=dict(refit=seen_refit, fresh=seen_fresh, perplexity=perp))
        C.true(est.transformer_.perplexity == fresh.transformer_.perplexity and est.get_params(deep=True)["transformer__perplexity"] == perp, "PredictableTSNE/refit==fresh-fit(transformer_-and-parameter)", detail=dict(refit=est.transformer_.perplexity, fresh=fresh.transformer_.perplexity, param=est.transformer.perplexity))
        C.true(numpy.array_equal(est.mean_, fresh.mean_) and numpy.array_equal(est.inv_std_, fresh.inv_std_) and est.loss_ == fresh.loss_, "PredictableTSNE/refit==fresh-fit(mean_,inv_std_,loss_)")

    return scenario


def sc_refit_ptr(cfg):
    """PiecewiseTreeRegressor(criterion='mselin') fitted twice: the second tree has as many leaves under other node
    ids; the per-leaf regressions are those of the new tree (C09's symbolic scenario with the refit history)"""
    from . import c09

    def scenario(C):
        c09.run_py(dict(n=3, leaves=3, refit_layout=True))(C)

    return scenario


def sc_refit_dtlr(cfg):
    """DecisionTreeLogisticRegression: nothing a node classifier learnt in one fit can reach the next fit -- the
    estimator parameter is never trained (a stateful / warm-starting one would carry its state over), every node
    of every tree trains its own clone exactly once, and the second tree shares no classifier with the first"""
    from . import c10

    m = loader.load("mlmodel.decision_tree_logreg")

    def scenario(C):
        N = c10.NodeClf
        N.C, N.table, N.fits, N.count = C, {}, [], 0
        n = 3
        X = numpy.arange(n, dtype=float).reshape(-1, 1) + c10.OFFSET
        ya = [C.choice(f"ya{i}", 2) for i in range(n)]
        yb = [C.choice(f"yb{i}", 2) for i in range(n)]
        C.assume(len(set(ya)) == 2 and len(set(yb)) == 2)
        base = N()
        est = m.DecisionTreeLogisticRegression(estimator=base, max_depth=2, min_samples_leaf=1, fit_improve_algo=cfg["algo"])
        est.fit(X, numpy.array(ya))
        first = c10.nodes_of(est.tree_)
        est.fit(X, numpy.array(yb))
        second = c10.nodes_of(est.tree_)
        C.true(not hasattr(base, "id_") and est.estimator is base, "DecisionTreeLogisticRegression/the-estimator-parameter-is-never-trained(clones-are)")
        objs = [id(nd.estimator) for nd in first + second]
        C.true(len(set(objs)) == len(objs), "DecisionTreeLogisticRegression/refit-shares-no-node-classifier-with-the-previous-tree")
        per = {}
        for f in N.fits:
            per[id(f[0])] = per.get(id(f[0]), 0) + 1
        C.true(all(v == 1 for v in per.values()), "DecisionTreeLogisticRegression/every-node-classifier-is-trained-exactly-once", detail=sorted(per.values()))
        C.true(all(nd.estimator is not base for nd in second), "DecisionTreeLogisticRegression/refit==fresh-fit(root-starts-from-an-untrained-clone)")

    return scenario


# ------------------------------------------------------------------ (b) seed discipline


class StreamProxy:
    """numpy.random with stream bookkeeping: every draw is symbolic (realised) and logged with its source"""

    def __init__(self, C, log):
        self.C, self.log = C, log
        self.k = 0

    def _src(self, src):
        self.log.append(src)

    def _perm(self, n, src):
        self._src(src)
        left = list(range(n))
        out = []
        for i in range(n):
            out.append(left.pop(self.C.choice(f"d{self.k}_{i}", len(left))))
        self.k += 1
        return numpy.array(out)

    def _ints(self, lo, hi, size, src):
        self._src(src)
        n = 1 if size is None else int(numpy.prod(size))
        vals = [lo + self.C.choice(f"d{self.k}_{i}", hi - lo) for i in range(n)]
        self.k += 1
        return vals[0] if size is None else numpy.array(vals)

    def _rand(self, n, src):
        self._src(src)
        self.k += 1
        if self.C.symbolic:
            out = []
            for i in range(n):
                r = sx.cur().real(f"u{self.k}_{i}")
                sx.cur().add_definition(z3.And(r.t >= 0, r.t < 1))
                out.append(r)
            return sx.sarr(out)
        return numpy.array([float(self.C.inputs.get(f"u{self.k}_{i}", 0.25)) for i in range(n)], dtype=object)

    # global stream
    def rand(self, n):
        return self._rand(n, "global")

    def permutation(self, a):
        a = numpy.arange(a) if isinstance(a, (int, numpy.integer)) else numpy.asarray(a)
        return a[self._perm(len(a), "global")]

    def randint(self, lo, hi=None, size=None, dtype=None):
        return self._ints(lo, hi, size, "global")

    def RandomState(self, seed=None):
        outer = self
        src = "unseeded-RandomState" if seed is None else ("seed", seed)

        class RS:
            def rand(self, n):
                return outer._rand(n, src)

            def permutation(self, a):
                a = numpy.arange(a) if isinstance(a, (int, numpy.integer)) else numpy.asarray(a)
                return a[outer._perm(len(a), src)]

            def randint(self, lo, hi=None, size=None, dtype=None):
                v = outer._ints(lo, hi, size, src)
                return v if dtype is None or size is None else numpy.asarray(v, dtype=dtype)

            def shuffle(self, a):
                a[:] = a[outer._perm(len(a), src)]

        return RS()


class _NPS(sx.Conversions):
    def __init__(self, rnd):
        self.random = rnd

    def __getattr__(self, k):
        return getattr(numpy, k)

    def empty(self, shape, dtype=None, **k):
        if dtype is not None and numpy.dtype(dtype).kind in "iub":
            return numpy.empty(shape, dtype=dtype)
        return numpy.empty(shape, dtype=object).view(sx.SArr)


def sc_seed_ckm(cfg):
    kc = loader.load("mlmodel.kmeans_constraint")
    m = loader.load("mlmodel._kmeans_constraint_")

    def scenario(C):
        log = []
        rnd = StreamProxy(C, log)
        n, k = 2, 2
        X = sx.cur().reals("X", n, 1) if C.symbolic else numpy.array([[float(C.inputs.get(f"X_{i}_0", 3.0 * i))] for i in range(n)], dtype=object)
        # concrete geometry, symbolic draws: the provenance of the draws is what is decided here
        D = numpy.array([[float(C.inputs.get(f"d_{i}_{j}", abs(i - j) + 0.5)) if not C.symbolic else abs(i - j) + 0.5 for j in range(n)] for i in range(k)], dtype=object)
        if C.symbolic:
            sx.cur().abstract_division = True
        seed = numpy.int64(cfg["seed"]) if cfg.get("numpy_int") else cfg["seed"]
        est = kc.ConstraintKMeans(n_clusters=k, strategy=cfg["strategy"], kmeans0=cfg["kmeans0"], random_state=seed, max_iter=2, balanced_predictions=True)

        def parent_fit(self, Xa, y=None, sample_weight=None):
            self.labels_ = numpy.array([0, 1], dtype=numpy.int32)
            self.cluster_centers_ = Xa[:k].copy()
            self.inertia_ = 1.0
            self.n_iter_ = 1
            return self

        stubs_m = dict(numpy=_NPS(rnd), euclidean_distances=lambda *a, **kw: D.copy(), _centers_dense=lambda X, sw, labels, n_clusters, d: X[:n_clusters].copy(), _labels_inertia_skl=lambda **kw: (None, 1.0), row_norms=lambda X, squared=True: None)
        with harness.patched(kc, numpy=_NPS(rnd)), harness.patched(kc.KMeans, fit=parent_fit), harness.patched(m, **stubs_m):
            est.fit(X)
            nfit = len(log)
            est.predict(X)
        glob = [s for s in log if s in ("global", "unseeded-RandomState")]
        if cfg["seed"] is not None:
            C.true(not [s for s in log[:nfit] if s in ("global", "unseeded-RandomState")], "ConstraintKMeans.fit/integer-random_state:no-draw-from-the-global-stream", detail=log[:nfit])
            C.true(not [s for s in log[nfit:] if s in ("global", "unseeded-RandomState")], "ConstraintKMeans.predict(balanced)/integer-random_state:no-draw-from-the-global-stream", detail=log[nfit:])
        else:
            C.true(True, "no-random_state:any-stream-allowed")

    return scenario


def replay_seed_ckm(cfg, inputs, label):
    """semantic confirmation on the real estimator: same data, parameters and integer random_state,
    different NumPy global seeds"""
    kc = loader.load("mlmodel.kmeans_constraint")
    for trial in range(40):
        rng = numpy.random.RandomState(trial)
        X = rng.randn(12, 2)
        res = []
        for gs in (1, 2, 3):
            numpy.random.seed(gs)
            est = kc.ConstraintKMeans(n_clusters=3, strategy=cfg["strategy"], random_state=0 if cfg["seed"] is None else (numpy.int64(cfg["seed"]) if cfg.get("numpy_int") else cfg["seed"]), kmeans0=cfg["kmeans0"], max_iter=5, balanced_predictions="predict" in label)
            try:
                est.fit(X)
            except AssertionError:
                res.append("failed")
                continue
            out = est.predict(X) if "predict" in label else est.labels_
            res.append(tuple(int(v) for v in out))
        if len(set(res)) > 1:
            return True, dict(data=f"RandomState({trial}).randn(12, 2)", random_state=cfg["seed"], strategy=cfg["strategy"], kmeans0=cfg["kmeans0"], global_seeds=[1, 2, 3], results=[str(r)[:80] for r in res[:2]])
    return False, "results identical under global seeds 1, 2, 3 on 40 data sets"


def sc_seed_kml1(cfg):
    km = loader.load("mlmodel.kmeans_l1")

    def scenario(C):
        calls = []
        real = km.check_random_state

        def crs(seed):
            calls.append(seed)
            return real(seed)

        X = numpy.array([[0.0], [1.0], [5.0], [6.0]])
        with harness.patched(km, check_random_state=crs):
            km.KMeansL1L2(n_clusters=2, norm="L1", n_init=2, random_state=cfg["seed"], init="random").fit(X)
        C.true(bool(calls) and calls[0] == cfg["seed"] and all(c is not None for c in calls[1:]), "KMeansL1L2/every-random-state-derives-from-random_state", detail=[str(c)[:20] for c in calls])
        if cfg["seed"] is not None:
            res = []
            for gs in (1, 2):
                numpy.random.seed(gs)
                e = km.KMeansL1L2(n_clusters=2, norm="L1", n_init=2, random_state=cfg["seed"], init="random").fit(X)
                res.append((tuple(e.labels_.tolist()), float(e.inertia_)))
            C.true(res[0] == res[1], "KMeansL1L2/integer-random_state:independent-of-the-global-seed")

    return scenario


def sc_seed_piecewise(cfg):
    """PiecewiseClassifier(random_state=<int>): the rows borrowed for missing classes are shuffled by the
    seeded generator only (scenario shared with C08)"""
    from . import c08

    return c08.scenario_for(dict(classifier=True, binner="tree", reverse=False, weighted=False, train=3, query=1, buckets=2, seed=cfg["seed"], n_jobs=None))


SCEN = dict(refit_ptr=sc_refit_ptr, refit_dtlr=sc_refit_dtlr, refit_tsne=sc_refit_tsne, seed_piecewise=sc_seed_piecewise, refit_piecewise=sc_refit_piecewise, refit_perm=sc_refit_perm, refit_categories=sc_refit_categories, refit_cak=sc_refit_cak, refit_misc=sc_refit_misc, seed_ckm=sc_seed_ckm, seed_kml1=sc_seed_kml1)


def run_config(cfg):
    r = harness.run_scenario(SCEN[cfg["kind"]](cfg), f"C03{cfg}", cfg=cfg, sig=lambda l: l + (f"/{cfg['strategy']}/kmeans0={cfg['kmeans0']}" if cfg["kind"] == "seed_ckm" else ""), on_exception_label="raises")
    if cfg["kind"] == "seed_ckm":
        for v in r["violations"]:
            ok, obs = replay_seed_ckm(cfg, {}, v["label"])
            v["reproduced"], v["observed"] = ok, sx.jsonable(obs)
    return r


def replay(cfg, inputs, label):
    if cfg["kind"] == "seed_ckm":
        return replay_seed_ckm(cfg, inputs, label)
    return harness.replay_scenario(SCEN[cfg["kind"]](cfg), inputs, label, "raises")


def configs(tier):
    out = [dict(kind="refit_piecewise")]
    for a, b in (("012", "539"), ("4", "01"), ("539", "neg")):
        for closest in (False, True):
            out.append(dict(kind="refit_perm", a=a, b=b, closest=closest))
    for colsA, colsB in ((["city", "kind"], ["kind"]), (["city"], ["kind", "size"]), (["kind", "city"], ["city", "kind"])):
        for single in (False, True):
            out.append(dict(kind="refit_categories", colsA=colsA, colsB=colsB, single=single))
    out.append(dict(kind="refit_cak"))
    out.append(dict(kind="refit_misc"))
    out.append(dict(kind="refit_tsne"))
    out.append(dict(kind="refit_ptr"))
    for algo in ("auto", "none"):
        out.append(dict(kind="refit_dtlr", algo=algo))
    for strategy in ("distance", "gain"):
        for kmeans0 in (True, False):
            out.append(dict(kind="seed_ckm", strategy=strategy, kmeans0=kmeans0, seed=0 if kmeans0 else 7))
    out.append(dict(kind="seed_ckm", strategy="distance", kmeans0=True, seed=5, numpy_int=True))  # random_state=numpy.int64(5)
    for seed in (3, None):
        out.append(dict(kind="seed_kml1", seed=seed))
    for seed in (0, 11):
        out.append(dict(kind="seed_piecewise", seed=seed))
    return out


def run(ctx, rep):
    rep.add_functions("mlmodel.piecewise_estimator", ["PiecewiseEstimator.fit", "PiecewiseEstimator._mapping_train", "PiecewiseEstimator.transform_bins"])
    rep.add_functions("mlmodel.sklearn_transform_inv_fct", ["PermutationReciprocalTransformer.fit", "PermutationReciprocalTransformer.transform"])
    rep.add_functions("mlmodel.categories_to_integers", ["CategoriesToIntegers.fit", "CategoriesToIntegers._build_schema", "CategoriesToIntegers.transform"])
    rep.add_functions("mlmodel.classification_kmeans", ["ClassifierAfterKMeans.fit", "ClassifierAfterKMeans.transform_features", "ClassifierAfterKMeans.predict"])
    rep.add_functions("mlmodel.kmeans_constraint", ["ConstraintKMeans.fit", "ConstraintKMeans.predict"])
    rep.add_functions("mlmodel._kmeans_constraint_", ["constraint_kmeans", "constraint_predictions", "_constraint_association_distance", "_constraint_association_gain", "_randomize_index", "_switch_clusters"])
    rep.add_functions("mlmodel.kmeans_l1", ["KMeansL1L2._fit_l1"])
    rep.add_functions("mlmodel.predictable_tsne", ["PredictableTSNE.fit"])
    rep.add_functions("mlmodel.piecewise_tree_regression", ["PiecewiseTreeRegressor._fit_reglin", "PiecewiseTreeRegressor._predict_reglin"])
    rep.add_functions("mlmodel.decision_tree_logreg", ["DecisionTreeLogisticRegression.fit", "DecisionTreeLogisticRegression._fit_parallel", "_DecisionTreeLogisticRegressionNode.fit"])
    cfgs = configs(ctx.tier)
    rep.bounds = dict(refit="pairs (A, B) of 2-3 rows with different sizes / bucket layouts / label sets / categorical columns", seeds="integer random_state 0/3 and None; every draw symbolic and realised (n=2 points, k=2 clusters for ConstraintKMeans)")
    rep.assumptions = [
        "stubs of C08/C13/C17 reused (binner, local models, permutation draws, joblib)",
        "seed discipline is decided on the provenance of the draws (no global-stream draw => no dependence on the global seed); a global-stream draw is reported only when the real estimator gives different results under different NumPy global seeds (replay)",
        "ConstraintKMeans: concrete geometry (2 points, 2 clusters), symbolic draws; parent KMeans.fit and the centre/inertia updates stubbed",
    ]
    rep.outside = ["estimators whose randomness lives inside scikit-learn (TSNE, MLP, KMeans L2)", "quantile MLP"]
    rep.absorb(harness.pmap(MOD, "run_config", cfgs), layer="scenarios")

    def twin(e):
        C = harness.SymC(e)
        log = []
        StreamProxy(C, log).permutation(2)
        e.prove(log != ["global"], "twin")

    eng = sx.Engine(name="C03-twin")
    eng.explore(twin)
    rep.vacuity.append(dict(twin="numpy.random.permutation is not logged as a global draw", refuted=bool(eng.cex)))
    if not eng.cex:
        rep.error("vacuity twin was not refuted")
