"""C11 -- ExtendedFeatures generates exactly scikit-learn's polynomial features.

SX: the real ``ExtendedFeatures.fit/transform`` (+ ``_transform_iall/_transform_ionly/
_combinations_poly``) run on a 2 x n matrix of symbolic reals; the oracle is the exponent
table ``PolynomialFeatures(...).fit(zeros).powers_`` (data free).  One NRA query per output
cell: column j == prod_i x_i ** powers_[j, i] for ALL real X.  Configurations
(n, degree, interaction_only, include_bias, kind) are loop bounds and are enumerated.
"""
import itertools
import re
from fractions import Fraction

import numpy

from .. import harness, loader, sx

MOD = "vf.props.c11"


def configs(tier):
    nmax, dmax = (4, 4) if tier == "quick" else (6, 5)
    out = []
    for n in range(1, nmax + 1):
        for d in range(0, dmax + 1):
            for io in (False, True):
                for bias in (False, True):
                    if d == 0 and not bias:
                        continue  # scikit-learn refuses it: zero output features
                    for kind in ("poly", "poly-slow"):
                        out.append(dict(n=n, degree=d, io=io, bias=bias, kind=kind))
    # larger batches (a row-blocking or buffering slip only shows beyond some size)
    for kind in ("poly", "poly-slow"):
        for io in (False, True):
            out.append(dict(n=2, degree=2, io=io, bias=True, kind=kind, rows=4100 if tier == "quick" else 9000))
    return out


def _oracle(cfg):
    from sklearn.preprocessing import PolynomialFeatures

    pf = PolynomialFeatures(degree=cfg["degree"], interaction_only=cfg["io"], include_bias=cfg["bias"])
    pf.fit(numpy.zeros((1, cfg["n"])))
    return pf, pf.powers_


def _make(cfg):
    ef = loader.load("mlmodel.extended_features")
    return ef.ExtendedFeatures(
        kind=cfg["kind"], poly_degree=cfg["degree"], poly_interaction_only=cfg["io"], poly_include_bias=cfg["bias"]
    )


_NAME = re.compile(r"^x(\d+)(?:\^(\d+))?$")


def _parse_name(name, n):
    ex = [0] * n
    if name == "1":
        return ex
    for tok in name.split(" "):
        m = _NAME.match(tok)
        if not m:
            return None
        ex[int(m.group(1))] += int(m.group(2) or 1)
    return ex


CUSTOM = ["t", "tt", "t_t", "at", "ta", "a"]  # caller-supplied column names that contain one another


def _parse_custom(name, names):
    ex = [0] * len(names)
    if name == "1":
        return ex
    for tok in name.split(" "):
        base, _, power = tok.partition("^")
        if base not in names or (power and not power.isdigit()):
            return None
        ex[names.index(base)] += int(power or 1)
    return ex


def run_config(cfg):
    pf, powers = _oracle(cfg)
    n = cfg["n"]
    viol = []

    def h(e):
        est = _make(cfg)
        est.fit(numpy.zeros((cfg.get("rows", 2), n)))  # fit reads the shape only
        e.prove(est.n_output_features_ == powers.shape[0], "n_output_features_")
        names = est.get_feature_names_out()
        e.prove(len(names) == powers.shape[0], "names/count")
        for j, nm in enumerate(names[: powers.shape[0]]):
            e.prove(_parse_name(nm, n) == [int(p) for p in powers[j]], f"name")
        cnames = est.get_feature_names_out(CUSTOM[:n])
        e.prove(len(cnames) == powers.shape[0], "names/count")
        for j, nm in enumerate(cnames[: powers.shape[0]]):
            e.prove(_parse_custom(nm, CUSTOM[:n]) == [int(p) for p in powers[j]], "name(caller-supplied-input-names)", detail=(j, nm))
        # two calls in a row (history): the second batch must be transformed like the first, and the array
        # returned by the first call must still hold the first batch's monomials afterwards (no shared buffer)
        R = cfg.get("rows", 2)
        kept = []
        for call in range(2):
            X = e.reals("x" if call == 0 else "z", R, n)
            out = est.transform(X)
            kept.append((X, out))
            tag = "" if call == 0 else "/second-call"
            e.prove(out.shape == (R, powers.shape[0]), "shape" + tag)
            if out.shape != (R, powers.shape[0]):
                return
        for call, (X, out) in enumerate(kept):
            tag = "" if call == 0 else "/second-call"
            if call == 0:
                tag = "/first-result-after-the-second-call"
            for r in range(R):
                for j in range(powers.shape[0]):
                    mono = 1
                    for i in range(n):
                        for _ in range(int(powers[j, i])):
                            mono = mono * X[r, i]
                    got = out[r, j]
                    if got is None or not (sx.is_sym(got) or isinstance(got, (int, float, Fraction))):
                        e.prove(False, "cell-never-written" + tag, detail=(r, j))
                    else:
                        e.prove_eq(got, mono, "cell" + tag, detail=(r, j))
        # history: a flag is changed on the fitted object (set_params), which is fitted again on a matrix of the
        # same width: counts, names and the transform's shape follow the new flag
        if cfg.get("rows", 2) == 2:
            for flag in ("poly_include_bias", "poly_interaction_only"):
                cfg2 = dict(cfg, bias=(not cfg["bias"]) if flag == "poly_include_bias" else cfg["bias"], io=(not cfg["io"]) if flag == "poly_interaction_only" else cfg["io"])
                if cfg2["degree"] == 0 and not cfg2["bias"]:
                    continue
                _, powers2 = _oracle(cfg2)
                est2 = _make(cfg)
                est2.fit(numpy.zeros((2, n)))
                est2.set_params(**{flag: cfg2["bias"] if flag == "poly_include_bias" else cfg2["io"]})
                est2.fit(numpy.zeros((3, n)))
                e.prove(est2.n_output_features_ == powers2.shape[0] and len(est2.get_feature_names_out()) == powers2.shape[0], "refit-after-set_params/" + flag + "/n_output_features_", detail=(est2.n_output_features_, powers2.shape[0]))
                V = e.reals("v", 1, n)
                try:
                    out2 = est2.transform(V)
                except Exception as ex:  # noqa: BLE001 - the code under test raising on valid input is a finding
                    e.prove(False, "refit-after-set_params/" + flag + "/transform-shape", detail=f"raises {type(ex).__name__}: {str(ex)[:80]}")
                    continue
                e.prove(out2.shape == (1, powers2.shape[0]), "refit-after-set_params/" + flag + "/transform-shape", detail=out2.shape)
                if out2.shape == (1, powers2.shape[0]):
                    for j in range(powers2.shape[0]):
                        mono = 1
                        for i in range(n):
                            for _ in range(int(powers2[j, i])):
                                mono = mono * V[0, i]
                        got = out2[0, j]
                        if got is None or not (sx.is_sym(got) or isinstance(got, (int, float, Fraction))):
                            e.prove(False, "refit-after-set_params/" + flag + "/cell", detail=j)
                        else:
                            e.prove_eq(got, mono, "refit-after-set_params/" + flag + "/cell", detail=j)

    eng = sx.Engine(name=f"C11{cfg}")
    eng.explore(h)
    for c in eng.cex:
        ok, obs = replay(cfg, c.inputs, c.label)
        sig = f"{c.label}/{'ionly' if cfg['io'] else 'iall'}/{cfg['kind']}"
        viol.append(harness.violation(c.label, sig, cfg, c.inputs, obs, ok))
    # validation of the reading of the oracle on a concrete matrix (translation check)
    validated = 0
    rng = numpy.random.RandomState(n * 31 + cfg["degree"])
    Xc = rng.randint(-3, 4, size=(2, n)).astype(float)
    ref = pf.transform(Xc)
    mine = numpy.array([[numpy.prod(Xc[r] ** powers[j]) for j in range(powers.shape[0])] for r in range(2)])
    if mine.shape == ref.shape and numpy.allclose(mine, ref):
        validated = 1
    else:
        return dict(stats=eng.stats.as_dict(), errors=["oracle reading of powers_ disagrees with PolynomialFeatures"])
    return dict(stats=eng.stats.as_dict(), violations=viol, validated=validated)


def replay(cfg, inputs, label):
    """Real ExtendedFeatures on floats vs real PolynomialFeatures."""
    n = cfg["n"]
    if label.startswith("refit-after-set_params/"):
        flag = label.split("/")[1]
        cfg2 = dict(cfg, bias=(not cfg["bias"]) if flag == "poly_include_bias" else cfg["bias"], io=(not cfg["io"]) if flag == "poly_interaction_only" else cfg["io"])
        pf2, powers2 = _oracle(cfg2)
        est2 = _make(cfg).fit(numpy.zeros((2, n)))
        est2.set_params(**{flag: cfg2["bias"] if flag == "poly_include_bias" else cfg2["io"]})
        est2.fit(numpy.zeros((3, n)))
        Xr = numpy.arange(2.0, 2.0 + 2 * n).reshape(2, n) / 2
        try:
            got = est2.transform(Xr)
        except Exception as ex:
            return True, dict(history=f"fit, set_params({flag}=...), fit again (same width), transform", raised=f"{type(ex).__name__}: {str(ex)[:160]}")
        ref = pf2.transform(Xr)
        if est2.n_output_features_ != powers2.shape[0] or got.shape != ref.shape or not numpy.allclose(got, ref):
            return True, dict(history=f"fit, set_params({flag}=...), fit again (same width)", n_output_features_=int(est2.n_output_features_), transform_shape=list(got.shape), expected_columns=int(powers2.shape[0]), first_row=got[0].tolist()[:8], expected_first_row=ref[0].tolist()[:8])
        return False, "refit follows the new flag"
    pf, powers = _oracle(cfg)
    est = _make(cfg)
    R = cfg.get("rows", 2)
    X = numpy.zeros((R, n))
    for r in range(R):
        for i in range(n):
            X[r, i] = float(inputs.get(f"x_{r}_{i}", Fraction(1, 2) + r * Fraction(1, 8) + i))
    # make every monomial distinguishable
    if not label.startswith("cell"):
        X = numpy.array([[2.0 + i + 0.001 * r for i in range(n)] for r in range(R)])
    try:
        est.fit(X)
        got = est.transform(X)
        if label.endswith("/first-result-after-the-second-call"):
            first = got
            ref_first = pf.transform(X)
            est.transform(X + 0.5)
            if not numpy.allclose(first, ref_first, rtol=1e-9, atol=1e-12):
                return True, dict(history="Y1 = transform(X1); transform(X2); Y1 changed", Y1_now=first.tolist()[:2], expected=ref_first.tolist()[:2])
            return False, "first result intact"
        if label.endswith("/second-call"):
            Z = X.copy()
            for r in range(R):
                for i in range(n):
                    if f"z_{r}_{i}" in inputs:
                        Z[r, i] = float(inputs[f"z_{r}_{i}"])
            X = Z + 0.25
            keep = [got, numpy.full((64, 64), 7.5)]  # keep the first result alive
            got = est.transform(X)
        names = est.get_feature_names_out()
    except Exception as e:
        return True, f"raised {type(e).__name__}: {e}"
    ref = pf.transform(X)
    if got.shape != ref.shape:
        return True, dict(shape=list(got.shape), expected=list(ref.shape))
    if est.n_output_features_ != ref.shape[1]:
        return True, dict(n_output_features_=est.n_output_features_, expected=int(ref.shape[1]))
    if not numpy.allclose(got, ref, rtol=1e-9, atol=1e-12):
        bad = numpy.argwhere(~numpy.isclose(got, ref, rtol=1e-9, atol=1e-12))[0]
        return True, dict(X=X.tolist(), cell=bad.tolist(), got=float(got[tuple(bad)]), expected=float(ref[tuple(bad)]))
    bad = [(j, nm) for j, nm in enumerate(names) if _parse_name(nm, n) != [int(p) for p in powers[j]]]
    if bad:
        return True, dict(names=bad[:3], expected=pf.get_feature_names_out().tolist()[:10])
    cn = list(est.get_feature_names_out(CUSTOM[:n]))
    bad = [(j, nm) for j, nm in enumerate(cn) if j >= len(powers) or _parse_custom(nm, CUSTOM[:n]) != [int(p) for p in powers[j]]]
    if bad or len(cn) != len(powers):
        return True, dict(input_features=CUSTOM[:n], names=bad[:3], expected=pf.get_feature_names_out(CUSTOM[:n]).tolist()[:10])
    return False, "no difference on the real code"


def run(ctx, rep):
    rep.add_functions("mlmodel.extended_features", ["ExtendedFeatures.fit", "ExtendedFeatures.transform", "ExtendedFeatures._transform_poly", "ExtendedFeatures._transform_poly_slow", "ExtendedFeatures.get_feature_names_out", "ExtendedFeatures._get_feature_names_poly"])
    rep.add_functions("mlmodel._extended_features_polynomial", ["_transform_iall", "_transform_ionly", "_combinations_poly"])
    cfgs = configs(ctx.tier)
    rep.bounds = dict(n_features=f"1..{max(c['n'] for c in cfgs)}", degree=f"0..{max(c['degree'] for c in cfgs)}", rows="2 for every configuration; 4100 (quick) / 9000 (thorough) for n=2, degree=2", flags="all", kinds=["poly", "poly-slow"])
    rep.assumptions = [
        "reals, not floats: the identity is polynomial identity over R; the association order of float products is outside the claim",
        "oracle: sklearn.preprocessing.PolynomialFeatures(...).powers_ (trusted, cross-checked against its transform on one concrete matrix per configuration)",
        "fit is called on a concrete zero matrix (it only reads the shape); dense input only",
        "degree=0 with include_bias=False excluded (scikit-learn raises)",
    ]
    rep.outside = ["sparse input", "custom input_features containing spaces", "float rounding"]
    res = harness.pmap(MOD, "run_config", cfgs)
    rep.absorb(res, layer="cells")
    # vacuity twin: a deliberately wrong goal must be refuted with a model
    def twin(e):
        est = _make(dict(kind="poly", degree=2, io=False, bias=True))
        est.fit(numpy.zeros((2, 2)))
        X = e.reals("x", 2, 2)
        out = est.transform(X)
        e.prove_eq(out[0, 3], X[0, 0] * X[0, 1], "twin")  # column 3 is x0^2, not x0*x1

    eng = sx.Engine(name="C11-twin")
    eng.explore(twin)
    rep.vacuity.append(dict(twin="cell 3 == x0*x1 (false)", refuted=bool(eng.cex)))
    if not eng.cex:
        rep.error("vacuity twin was not refuted")
