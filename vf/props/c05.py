"""C05 -- QuantileLinearRegression fits, and scores with, the pinball loss of its quantile.

SX (z3 NRA).  The real ``_epsilon``, ``score`` and ``fit`` (its IRLS loop with the nested
``compute_z``) run on symbolic y, X, weights, quantile q in (0,1) and delta > 0.  The inner
least-squares solver is a stub that records how it is configured and called and answers with
an arbitrary (fresh symbolic) coefficient vector, so every statement below holds whatever the
solver returns:
 (1) score == 2 * weighted mean of rho_q(y - f), rho_q(u) = q*max(u,0) + (1-q)*max(-u,0)
     (mean over n rows, or over sum(w) with weights: the repetition-equivalent normalisation);
 (2) IRLS step lemma: the weights W' handed to the next least-squares call satisfy
     W'_i * e_i^2 == w_i * rho_q(e_i) whenever |e_i| >= delta (e = y - X.beta): each iteration
     minimises the quadratic majoriser of the SAME pinball loss that (1) scores;
 (3) integer weights == repeated rows: same W' per distinct row (times its multiplicity);
 (4) the inner solver is built with fit_intercept=False, positive=self.positive; it gets
     [X, 1] with fit_intercept; coef_/intercept_ are the last beta; intercept_ = 0 without
     intercept; n_iter_ <= max_iter - 1; caller arrays are not written.
"""
import itertools
from fractions import Fraction

import numpy
import z3

from .. import harness, loader, sx

MOD = "vf.props.c05"


class _NP(sx.Conversions):
    def __getattr__(self, n):
        return getattr(numpy, n)

    def ones(self, shape, dtype=None):
        a = numpy.empty(shape, dtype=object)
        a[...] = 1
        return a.view(sx.SArr)

    def array(self, a, *args, **kw):
        # numpy.array(x) keeps x's dtype: an integer-typed vector stays a truncating buffer
        if isinstance(a, sx.IntArr):
            return a.copy().view(sx.IntArr)
        if isinstance(a, sx.SArr):
            return a.copy()
        return numpy.array(a, *args, **kw)

    def sign(self, a):
        a = numpy.asarray(a, dtype=object)
        out = numpy.empty(a.shape, dtype=object)
        for i in numpy.ndindex(a.shape):
            v = a[i]
            out[i] = 1 if v > 0 else (-1 if v < 0 else 0)
        # integer signs, as numpy.sign gives for a float array (concrete on each path)
        return out.astype(int)

    def maximum(self, a, b):
        a, b = numpy.broadcast_arrays(numpy.asarray(a, dtype=object), numpy.asarray(b, dtype=object))
        out = numpy.empty(a.shape, dtype=object)
        for i in numpy.ndindex(a.shape):
            out[i] = a[i] if a[i] >= b[i] else b[i]  # fork: keeps every query a polynomial identity
        return out.view(sx.SArr)


def _rho(u, q):
    return q * sx.smax(u, 0) + (1 - q) * sx.smax(-u, 0)


class _StopFit(Exception):
    """raised by the stub once the call under study has been recorded: the rest of the loop
    (a comparison of two bilinear sums, lastE == E) is not needed for the lemma"""


class StubLR:
    """inner LinearRegression: records construction and calls, answers with a fresh beta"""

    log = None
    stop_after = None

    def __init__(self, **kw):
        self.kw = kw
        StubLR.log.append(("init", kw))

    def fit(self, X, y, sample_weight=None):
        e = sx.cur()
        k = sum(1 for r in StubLR.log if r[0] == "fit")
        beta = sx.sarr([e.real(f"beta_{k}_{j}") for j in range(X.shape[1])])
        # snapshot: the caller may refresh its weight buffer in place afterwards
        StubLR.log.append(("fit", X, y, None if sample_weight is None else sample_weight.copy(), beta))
        self.coef_ = beta
        if StubLR.stop_after is not None and k + 1 >= StubLR.stop_after:
            raise _StopFit()
        return self


def _mk(qr, q, via_set_params=False, **kw):
    if via_set_params:
        # built with the defaults (quantile 0.5), configured afterwards -- what clone().set_params(...) of a grid does
        est = qr.QuantileLinearRegression()
        est.set_params(quantile=q, **kw)
        return est
    est = qr.QuantileLinearRegression(quantile=q, **kw)
    return est


def run_score(cfg):
    qr = loader.load("mlmodel.quantile_regression")
    n, weighted, half = cfg["n"], cfg["weighted"], cfg["half"]

    def h(e):
        y = sx.int_array([e.int(f"y_{i}", -9, 9) for i in range(n)]) if cfg.get("int_y") else e.reals("y", n)  # counts: an integer-typed target
        f = e.reals("f", n)
        if half:
            q = 0.5
        else:
            q = e.real("q")
            e.assume(q > 0)
            e.assume(q < 1)
        w = None
        if weighted:
            w = e.reals("w", n)
            for i in range(n):
                e.assume(w[i] > 0)
        est = _mk(qr, q)
        est.predict = lambda X: f  # LinearModel.predict contract: X @ coef_ + intercept_ (stub)
        X = e.reals("X", n, 1)
        def mae(yt, yp, sample_weight=None):
            # documented contract of sklearn's MAE: (n,) and (n, 1) targets are the same single-output problem
            yt, yp = numpy.asarray(yt, dtype=object).reshape(-1).view(sx.SArr), numpy.asarray(yp, dtype=object).reshape(-1).view(sx.SArr)
            return (abs(yt - yp) * sample_weight).sum() / sample_weight.sum() if sample_weight is not None else abs(yt - yp).sum() / len(yt)

        with harness.patched(qr, numpy=_NP(), mean_absolute_error=mae):
            # "y: array-like, shape = (n_samples) or (n_samples, n_outputs)": a column target is the same problem
            s = est.score(X, y.reshape(-1, 1) if cfg.get("column") else y, sample_weight=w)
        qq = Fraction(1, 2) if half else q
        tot = sx.ssum([(w[i] if weighted else 1) * _rho(y[i] - f[i], qq) for i in range(n)])
        den = sx.ssum(list(w)) if weighted else n
        # cross-multiplied (den > 0): keeps the goal polynomial
        e.prove_eq(s * den, 2 * tot, "score=2*mean-pinball" + ("/weighted" if weighted else ""))

    eng = sx.Engine(name=f"C05{cfg}", logic="QF_NRA")
    eng.fork_abs = True
    eng.explore(h)
    viol = []
    for c in eng.cex[:1]:
        ok, obs = replay_score(cfg, c.inputs, c.label)
        sig = c.label + ("" if not half else "/q=0.5")
        if ok and isinstance(obs, dict):
            sig += "/" + obs.get("kind", "other")
        viol.append(harness.violation(c.label, sig, cfg, c.inputs, obs, ok))
    return dict(stats=eng.stats.as_dict(), violations=viol)


def replay_score(cfg, inputs, label):
    qr = loader.load("mlmodel.quantile_regression")
    n = cfg["n"]
    q = 0.5 if cfg["half"] else float(inputs.get("q", Fraction(1, 4)))
    y = numpy.array([float(inputs.get(f"y_{i}", 0)) for i in range(n)])
    if cfg.get("int_y"):
        y = numpy.array([int(inputs.get(f"y_{i}", i + 1)) for i in range(n)], dtype=numpy.int64)
    f = numpy.array([float(inputs.get(f"f_{i}", 0)) for i in range(n)])
    w = numpy.array([float(inputs.get(f"w_{i}", 1)) for i in range(n)]) if cfg["weighted"] else None
    est = qr.QuantileLinearRegression(quantile=q, fit_intercept=True)
    # a real fitted linear model whose predictions are f: X = f, coef = 1, intercept = 0
    est.coef_ = numpy.array([1.0])
    est.intercept_ = 0.0
    X = f.reshape(-1, 1)
    s = float(est.score(X, y.reshape(-1, 1) if cfg.get("column") else y, sample_weight=w))
    u = y - f
    rho = q * numpy.maximum(u, 0) + (1 - q) * numpy.maximum(-u, 0)
    ww = w if w is not None else numpy.ones(n)
    want = 2 * float((ww * rho).sum() / ww.sum())
    if abs(s - want) > 1e-9 * max(1, abs(want)):
        swapped = 2 * float((ww * ((1 - q) * numpy.maximum(u, 0) + q * numpy.maximum(-u, 0))).sum() / ww.sum())
        by_n = 2 * float((ww * rho).sum() / n)
        kind = "q-and-1-q-swapped" if abs(s - swapped) < 1e-9 else ("weighted-sum-divided-by-n" if abs(s - by_n) < 1e-9 else "other")
        if kind == "other" and abs(s - 2 * float((ww * ((1 - q) * numpy.maximum(u, 0) + q * numpy.maximum(-u, 0))).sum() / n)) < 1e-9:
            kind = "q-and-1-q-swapped+divided-by-n"
        return True, dict(kind=kind, q=q, y=y.tolist(), f=f.tolist(), w=None if w is None else w.tolist(), score=s, twice_mean_pinball=want)
    return False, dict(score=s, expected=want)


def run_fit(cfg):
    qr = loader.load("mlmodel.quantile_regression")
    n, d, weighted, icpt, positive, half = cfg["n"], cfg["d"], cfg["weighted"], cfg["icpt"], cfg["positive"], cfg["half"]
    max_iter = cfg["max_iter"]

    def h(e):
        y = e.reals("y", n)
        if cfg.get("design") == "int":
            # integer-typed feature matrix (counts, codes) with real-valued targets
            X = sx.int_array([[e.int(f"X_{i}_{j}", -9, 9) for j in range(d)] for i in range(n)])
        elif cfg.get("design") == "identity":
            # the design matrix only enters through Xm @ beta: with X = I_n the predictions are
            # n independent arbitrary reals (beta_i [+ beta_n]) and every query stays linear
            X = sx.sarr([[1 if i == j else 0 for j in range(d)] for i in range(n)])
        else:
            X = e.reals("X", n, d)
        if half:
            q = 0.5
        else:
            q = e.real("q")
            e.assume(q > 0)
            e.assume(q < 1)
        delta = e.real("delta")
        e.assume(delta > 0)
        w = None
        if weighted:
            w = e.reals("w", n)
            for i in range(n):
                e.assume(w[i] > 0)
        Xc, yc, wc = X.copy(), y.copy(), None if w is None else w.copy()
        est = _mk(qr, q, via_set_params=bool(cfg.get("setp")), fit_intercept=icpt, positive=positive, max_iter=max_iter, delta=delta)
        StubLR.log = []
        StubLR.stop_after = cfg.get("stop_after")
        old = qr.numpy, qr.LinearRegression
        qr.numpy, qr.LinearRegression = _NP(), StubLR
        stopped = False
        try:
            ret = est.fit(X, y, sample_weight=w)
        except _StopFit:
            stopped = True
        finally:
            qr.numpy, qr.LinearRegression = old
            StubLR.stop_after = None
        log = StubLR.log
        if not stopped:
            e.prove(ret is est, "fit-returns-self")
        inits = [r for r in log if r[0] == "init"]
        fits = [r for r in log if r[0] == "fit"]
        e.prove(len(inits) == 1 and inits[0][1].get("fit_intercept") is False and inits[0][1].get("positive") is positive, "inner-solver-config")
        e.prove(len(inits) == 1 and inits[0][1].get("copy_X", True) is True, "inner-solver-config/copy_X(the-caller's-X-is-never-handed-over-for-in-place-work)")
        if not stopped:
            e.prove(1 <= len(fits) <= max_iter and est.n_iter_ == len(fits) - 1, "n_iter_")
        qq = Fraction(1, 2) if half else q
        for k, (_, Xm, yk, Wk, beta) in enumerate(fits):
            okshape = Xm.shape == (n, d + (1 if icpt else 0))
            e.prove(okshape, "design-matrix/shape")
            if not okshape:
                return
            for i in range(n):
                for j in range(d):
                    e.prove_eq(Xm[i, j], X[i, j], "design-matrix")
                if icpt:
                    e.prove_eq(Xm[i, d], 1, "design-matrix/ones")
                e.prove_eq(yk[i], y[i], "target-unchanged")
            if k == 0:
                for i in range(n):
                    e.prove_eq(Wk[i], w[i] if weighted else 1, "first-weights")
            else:
                pb = fits[k - 1][4]
                for i in range(n):
                    pred = sx.ssum([Xm[i, j] * pb[j] for j in range(Xm.shape[1])])
                    u = y[i] - pred
                    wi = w[i] if weighted else 1
                    # IRLS weight (quadratic majoriser of the pinball loss): W' * max(|e|, delta) == w * c,
                    # c = q for an under-prediction, 1-q for an over-prediction (x2 in the q=0.5 branch, a
                    # constant factor that does not move the minimiser); hence W'*e^2 == w*rho_q(e) for |e|>=delta
                    au = abs(u)
                    D = au if au >= delta else delta
                    c = (qq if u > 0 else (1 - qq)) * (2 if (half or qq == Fraction(1, 2)) else 1)
                    if u == 0:
                        continue  # the row's weight is irrelevant to the majoriser at a zero residual
                    e.prove_eq(Wk[i] * D, wi * c, "irls-step-lemma")
        if stopped:
            return
        last = fits[-1][4]
        if icpt:
            for j in range(d):
                e.prove_eq(est.coef_[j], last[j], "coef_")
            e.prove_eq(est.intercept_, last[d], "intercept_")
        else:
            for j in range(d):
                e.prove_eq(est.coef_[j], last[j], "coef_")
            e.prove_eq(est.intercept_, 0, "intercept_=0")
        if cfg.get("design") == "symbolic" and not stopped:
            # history: set_params(positive=other) then fit again on the same instance: the inner solver
            # must be configured from the CURRENT hyper-parameters
            est.set_params(positive=not positive)
            StubLR.log = []
            old = qr.numpy, qr.LinearRegression
            qr.numpy, qr.LinearRegression = _NP(), StubLR
            try:
                est.fit(X, y, sample_weight=w)
            finally:
                qr.numpy, qr.LinearRegression = old
            inits2 = [r for r in StubLR.log if r[0] == "init"]
            fits2 = [r for r in StubLR.log if r[0] == "fit"]
            e.prove(len(inits2) == 1 and inits2[0][1].get("positive") is (not positive) and inits2[0][1].get("fit_intercept") is False and len(fits2) >= 1, "inner-solver-config/refit-after-set_params")
        # caller data untouched
        same = all(X[i, j] is Xc[i, j] or (not sx.is_sym(X[i, j]) and X[i, j] == Xc[i, j]) for i in range(n) for j in range(d)) and all(y[i] is yc[i] for i in range(n))
        if weighted:
            same = same and all(w[i] is wc[i] for i in range(n))
        e.prove(same, "caller-data-untouched")

    eng = sx.Engine(name=f"C05{cfg}", logic="QF_NRA")
    eng.fork_abs = True
    eng.explore(h)
    viol = []
    for c in eng.cex[:1]:
        ok, obs = replay_fit(cfg, c.inputs, c.label)
        viol.append(harness.violation(c.label, f"fit/{c.label}", cfg, c.inputs, obs, ok))
    return dict(stats=eng.stats.as_dict(), violations=viol)


def _replay_intercept(cfg):
    """fit_intercept=False on feature matrices as callers hold them (C float64, Fortran order, float32, integer,
    a strided view, a DataFrame): intercept_ is 0 and coef_ has one entry per feature"""
    import pandas

    qr = loader.load("mlmodel.quantile_regression")
    rng = numpy.random.RandomState(0)
    A = rng.randn(30, 4)
    y = A[:, 0] * 2 - A[:, 2] + rng.randn(30) * 0.1
    variants = {"C float64": A[:, :2].copy(), "Fortran order": numpy.asfortranarray(A[:, :2]), "float32": A[:, :2].astype(numpy.float32), "integer": (A[:, :2] * 10).astype(numpy.int64), "strided view": A[:, ::2], "DataFrame": pandas.DataFrame(dict(a=A[:, 0], b=A[:, 1]))}
    for name, X in variants.items():
        try:
            est = qr.QuantileLinearRegression(quantile=0.3, fit_intercept=False, max_iter=3).fit(X, y)
        except Exception as ex:
            return True, dict(X=name, raised=f"{type(ex).__name__}: {str(ex)[:160]}")
        if est.intercept_ != 0 or numpy.shape(est.coef_) != (2,):
            return True, dict(X=name, fit_intercept=False, intercept_=float(est.intercept_), coef_=numpy.asarray(est.coef_).tolist())
    return False, "intercept_ == 0 without intercept for every kind of feature matrix"


def replay_fit(cfg, inputs, label):
    if label == "intercept_=0":
        return _replay_intercept(cfg)
    """Real library, real LinearRegression wrapped by a recorder: the weights of the second
    least-squares call are compared with the pinball majoriser for the first beta."""
    qr = loader.load("mlmodel.quantile_regression")
    from sklearn.linear_model import LinearRegression

    n, d = cfg["n"], cfg["d"]
    q = 0.5 if cfg["half"] else float(inputs.get("q", Fraction(1, 4)))
    delta = float(inputs.get("delta", Fraction(1, 10000)))
    rng = numpy.random.RandomState(0)
    y = numpy.array([float(inputs.get(f"y_{i}", i)) for i in range(n)])
    X = numpy.array([[float(inputs.get(f"X_{i}_{j}", i + j)) for j in range(d)] for i in range(n)])
    if cfg.get("design") == "int":
        X = numpy.array([[int(inputs.get(f"X_{i}_{j}", i + j + 1)) for j in range(d)] for i in range(n)], dtype=numpy.int64)
        y = y + 0.37
    if cfg.get("design") == "identity":
        # real least squares cannot return an arbitrary beta: use a real regression problem instead
        n = 6
        X = rng.rand(n, 2) * 3
        y = X @ numpy.array([1.5, -2.0]) + rng.rand(n) * (1 + numpy.arange(n))
        d = 2
    w = numpy.array([float(inputs.get(f"w_{i}", 1 + i % 3)) for i in range(n)]) if cfg["weighted"] else None
    X0, y0, w0 = X.copy(), y.copy(), None if w is None else w.copy()
    calls = []

    class Rec(LinearRegression):
        def __init__(self, **kw):
            calls.append(("init", kw))
            super().__init__(**kw)

        def fit(self, Xm, yy, sw=None):
            calls.append(("fit", numpy.array(Xm, dtype=float), numpy.array(yy, dtype=float), None if sw is None else numpy.array(sw, dtype=float)))
            if numpy.linalg.matrix_rank(Xm) < Xm.shape[1]:
                self.coef_ = numpy.zeros(Xm.shape[1])
                calls.append(("beta", self.coef_.copy()))
                return self
            r = super().fit(Xm, yy, sw)
            calls.append(("beta", numpy.array(self.coef_, dtype=float)))
            return r

    est = _mk(qr, q, via_set_params=bool(cfg.get("setp")), fit_intercept=cfg["icpt"], positive=cfg["positive"], max_iter=max(2, cfg["max_iter"]), delta=delta)
    old = qr.LinearRegression
    qr.LinearRegression = Rec
    try:
        ret = est.fit(X, y, sample_weight=w)
    except Exception as e:
        return True, f"raised {type(e).__name__}: {e}"
    finally:
        qr.LinearRegression = old
    if ret is not est:
        return True, "fit did not return self"
    if not (numpy.array_equal(X, X0) and numpy.array_equal(y, y0) and (w is None or numpy.array_equal(w, w0))):
        return True, "caller data modified"
    if label.endswith("refit-after-set_params"):
        est.set_params(positive=not cfg["positive"])
        del calls[:]
        qr.LinearRegression = Rec
        try:
            est.fit(X, y, sample_weight=w)
        finally:
            qr.LinearRegression = old
        used = [c[1].get("positive") for c in calls if c[0] == "init"]
        if used != [not cfg["positive"]]:
            return True, dict(history="fit, set_params(positive=%r), fit" % (not cfg["positive"]), inner_solver_positive=used, note="no new inner solver built" if not used else "")
        return False, "refit uses the new option"
    inits = [c for c in calls if c[0] == "init"]
    if label.startswith("inner-solver-config/copy_X"):
        bad = [c[1] for c in inits if c[1].get("copy_X", True) is not True]
        if bad:
            Xf = numpy.asfortranarray(X.astype(float)) if False else numpy.ascontiguousarray(X, dtype=float)
            X1 = Xf.copy()
            qr.QuantileLinearRegression(quantile=q, fit_intercept=cfg["icpt"], max_iter=3).fit(Xf, y, sample_weight=numpy.arange(1.0, n + 1))
            return True, dict(inner_solver_kwargs=str(bad[0]), caller_X_modified=not numpy.array_equal(Xf, X1))
        return False, "copy_X is True"
    if label == "target-unchanged":
        seen_y = [c[2] for c in calls if c[0] == "fit"]
        if seen_y and not numpy.allclose(seen_y[0], y):
            return True, dict(X_dtype=str(X.dtype), y=y.tolist(), target_seen_by_the_inner_solver=seen_y[0].tolist())
    if len(inits) != 1 or inits[0][1].get("fit_intercept") is not False or inits[0][1].get("positive") is not cfg["positive"]:
        return True, dict(inner_solver=str([c[1] for c in inits]))
    fits = [c for c in calls if c[0] == "fit"]
    betas = [c[1] for c in calls if c[0] == "beta"]
    if est.n_iter_ != len(fits) - 1 or len(fits) > max(2, cfg["max_iter"]):
        return True, dict(n_iter_=est.n_iter_, calls=len(fits))
    Xm = numpy.hstack([X, numpy.ones((n, 1))]) if cfg["icpt"] else X
    if fits[0][1].shape != Xm.shape or not numpy.allclose(fits[0][1], Xm):
        return True, dict(design_matrix=fits[0][1].tolist(), expected=Xm.tolist())
    w1 = numpy.ones(n) if w is None else w
    if fits[0][3] is not None and not numpy.allclose(fits[0][3], w1):
        return True, dict(first_weights=fits[0][3].tolist())
    if len(fits) >= 2:
        u = y - Xm @ betas[0]
        rho = q * numpy.maximum(u, 0) + (1 - q) * numpy.maximum(-u, 0)
        W = fits[1][3]
        big = numpy.abs(u) >= delta
        lhs = numpy.where(big, W * u * u, W * delta * numpy.abs(u))
        if cfg["half"] or q == 0.5:
            rho = 2 * rho  # the q=0.5 branch minimises |e| = 2*rho_0.5(e): same minimiser
        if not numpy.allclose(lhs, w1 * rho, rtol=1e-7, atol=1e-12):
            return True, dict(q=q, residuals=u.tolist(), next_weights=W.tolist(), expected_W_times_u2=(w1 * rho).tolist(), got=lhs.tolist())
    last = betas[-1]
    if cfg["icpt"]:
        if not (numpy.allclose(est.coef_, last[:-1]) and numpy.isclose(est.intercept_, last[-1])):
            return True, dict(coef_=numpy.asarray(est.coef_).tolist(), intercept_=float(est.intercept_), last_beta=last.tolist())
    else:
        if not (numpy.allclose(est.coef_, last) and est.intercept_ == 0):
            return True, dict(coef_=numpy.asarray(est.coef_).tolist(), intercept_=float(est.intercept_), last_beta=last.tolist())
    return False, "real fit agrees"


def run_rep(cfg):
    """weights == repetition, one IRLS iteration: rows (a, b) with integer weights (m0, m1) vs the
    row-repeated data, same first beta: same W' per distinct row up to its multiplicity."""
    qr = loader.load("mlmodel.quantile_regression")
    mult = cfg["mult"]
    n = len(mult)
    rep_index = [i for i in range(n) for _ in range(mult[i])]

    def h(e):
        y = e.reals("y", n)
        X = e.reals("X", n, 1)
        q = e.real("q")
        e.assume(q > 0)
        e.assume(q < 1)
        delta = e.real("delta")
        e.assume(delta > 0)
        b0 = [e.real("b0"), e.real("b1")]

        class Fixed(StubLR):
            def fit(self, Xm, yy, sample_weight=None):
                StubLR.log.append(("fit", Xm, yy, None if sample_weight is None else sample_weight.copy(), sx.sarr(b0)))
                self.coef_ = sx.sarr(b0)
                return self

        outs = []
        ests = [_mk(qr, q, fit_intercept=True, max_iter=2, delta=delta) for _ in range(2)]
        old = qr.numpy, qr.LinearRegression
        qr.numpy, qr.LinearRegression = _NP(), Fixed
        try:
            # multiplicities are an INTEGER-typed vector, as a caller holding counts passes them
            for est, (Xa, ya, wa) in zip(ests, ((X, y, sx.int_array(mult)), (X[rep_index], y[rep_index], None))):
                StubLR.log = []
                est.fit(Xa, ya, sample_weight=wa)
                outs.append([r for r in StubLR.log if r[0] == "fit"])
        finally:
            qr.numpy, qr.LinearRegression = old
        (fa, fb) = outs
        e.prove(len(fa) == 2 and len(fb) == 2, "repetition/calls")
        Wa, Wb = fa[1][3], fb[1][3]
        pos = 0
        for i in range(n):
            for _ in range(mult[i]):
                # the weighted row carries mult[i] times the weight of each of its copies
                e.prove_eq(Wa[i], mult[i] * Wb[pos], "weights==repetition")
                pos += 1

    eng = sx.Engine(name=f"C05{cfg}", logic="QF_NRA")
    eng.fork_abs = True
    eng.explore(h)
    viol = []
    for c in eng.cex[:1]:
        viol.append(harness.violation(c.label, f"fit/{c.label}", cfg, c.inputs, "see replay", replay_rep(cfg, c.inputs)[0]))
    return dict(stats=eng.stats.as_dict(), violations=viol)


def replay_rep(cfg, inputs, label=None):
    qr = loader.load("mlmodel.quantile_regression")
    mult = cfg["mult"]
    n = len(mult)
    idx = [i for i in range(n) for _ in range(mult[i])]
    rng = numpy.random.RandomState(1)
    X = rng.rand(8, 1) * 4
    y = rng.rand(8) * 3 + X[:, 0]
    m = numpy.array((mult * 8)[:8], dtype=numpy.int64)
    idx = [i for i in range(8) for _ in range(int(m[i]))]
    q = float(inputs.get("q", Fraction(1, 4)))
    a = qr.QuantileLinearRegression(quantile=q, max_iter=30).fit(X, y, sample_weight=m)
    b = qr.QuantileLinearRegression(quantile=q, max_iter=30).fit(X[idx], y[idx])
    if not (numpy.allclose(a.coef_, b.coef_, atol=1e-6) and numpy.isclose(a.intercept_, b.intercept_, atol=1e-6)):
        return True, dict(weighted=[a.coef_.tolist(), float(a.intercept_)], repeated=[b.coef_.tolist(), float(b.intercept_)])
    return False, "same model"


def run_config(cfg):
    return dict(score=run_score, fit=run_fit, rep=run_rep)[cfg["kind"]](cfg)


def replay(cfg, inputs, label):
    return dict(score=replay_score, fit=replay_fit, rep=replay_rep)[cfg["kind"]](cfg, inputs, label)


def configs(tier):
    out = []
    nmax = 3 if tier == "quick" else 4
    for n in range(1, nmax + 1):
        for weighted in (False, True):
            for half in (False, True):
                if n >= 4 and weighted and not half:
                    continue  # trilinear w*q*|u| over 4 rows: z3 nlsat does not finish in 30 s (stated bound: n <= 3 there)
                out.append(dict(kind="score", n=n, weighted=weighted, half=half))
                if half and n == 2:
                    out.append(dict(kind="score", n=n, weighted=weighted, half=half, column=True))
                if not half and n == 2:
                    out.append(dict(kind="score", n=n, weighted=weighted, half=half, int_y=True))
    # plumbing: symbolic design matrix, one least-squares call
    for n, d in ((2, 1), (3, 1)) if tier == "quick" else ((2, 1), (3, 1), (2, 2), (3, 2)):
        for weighted in (False, True):
            for icpt in (True, False):
                for positive in (False, True):
                    out.append(dict(kind="fit", n=n, d=d, weighted=weighted, icpt=icpt, positive=positive, half=False, max_iter=1, design="symbolic"))
    for icpt in (True, False):
        out.append(dict(kind="fit", n=2, d=1, weighted=False, icpt=icpt, positive=False, half=False, max_iter=1, design="int"))
    # IRLS step lemma: independent arbitrary predictions (X = I_n), two (three) least-squares calls
    for n in (1, 2) if tier == "quick" else (1, 2, 3):
        for weighted in (False, True):
            for icpt in (True, False):
                for half in (False, True):
                    out.append(dict(kind="fit", n=n, d=n, weighted=weighted, icpt=icpt, positive=False, half=half, max_iter=2, design="identity", stop_after=2))
    for n in (1, 2):
        out.append(dict(kind="fit", n=n, d=n, weighted=True, icpt=True, positive=False, half=False, max_iter=2, design="identity", stop_after=2, setp=True))
    # the whole loop (exit test lastE == E, n_iter_, final coefficients) on one row
    for weighted in (False, True):
        out.append(dict(kind="fit", n=1, d=1, weighted=weighted, icpt=True, positive=False, half=False, max_iter=2, design="identity"))
    for mult in ([2, 1], [1, 3]) if tier == "quick" else ([2, 1], [1, 3], [2, 2], [1, 2, 1]):
        out.append(dict(kind="rep", mult=mult))
    return out


def run(ctx, rep):
    rep.add_functions("mlmodel.quantile_regression", ["QuantileLinearRegression.__init__", "QuantileLinearRegression.fit", "QuantileLinearRegression.fit.compute_z", "QuantileLinearRegression._epsilon", "QuantileLinearRegression.score"])
    cfgs = configs(ctx.tier)
    rep.bounds = dict(rows="score n<=3/4; fit n<=3 (d<=2 thorough)", iterations="max_iter=2 (3 in one thorough configuration): one full IRLS step from an arbitrary beta", quantile="symbolic in (0,1), plus the q=0.5 branch", delta="symbolic > 0", weights="symbolic reals > 0; integer multiplicities {1,2,3} for the repetition lemma")
    rep.assumptions = [
        "inner LinearRegression replaced by a recording stub returning an ARBITRARY coefficient vector (fresh symbols) -- least squares itself (LAPACK / NNLS for positive=True) is trusted",
        "LinearModel.predict stubbed by its contract (returns the symbolic predictions f); sklearn.metrics.mean_absolute_error stubbed by its documented weighted mean",
        "module numpy proxied for ones/sign/maximum (object-array versions, maximum as an If-term)",
        "weighted score normalises by sum(w) (the repetition-equivalent mean; it is what the q=0.5 branch does)",
        "reals, not floats",
    ]
    rep.outside = ["convergence of IRLS to the LP optimum and the 'fraction q below the line' consequence (numerical fixed point over LAPACK)", "non-negativity of coefficients under positive=True (scikit-learn's NNLS); only the option's propagation is checked", "sparse X / DataFrame input"]
    rep.absorb(harness.pmap(MOD, "run_config", cfgs), layer="score+fit+repetition")

    def twin(e):  # score with q and 1-q swapped must be refuted
        y, f = e.real("y"), e.real("f")
        q = e.real("q")
        e.assume(q > 0)
        e.assume(q < 1)
        e.prove_eq(_rho(y - f, q), _rho(y - f, 1 - q), "twin")

    eng = sx.Engine(name="C05-twin")
    eng.explore(twin)
    rep.vacuity.append(dict(twin="rho_q == rho_(1-q) (false)", refuted=bool(eng.cex)))
    if not eng.cex:
        rep.error("vacuity twin was not refuted")
