"""C18 -- correlation and comparable-score metrics are well defined.

SX, dual-mode scenarios.  non_linear_correlations (array branch and DataFrame branch) runs on a
symbolic table; scale / train_test_split / the learner are stubs (the test-fold predictions of
every (draw, i, j) are ARBITRARY symbolic reals, or the test fold itself for the identity
learner), numpy.var is its exact rational form, x**0.5 a fresh s >= 0 with s*s = x.
Obligations: square result, one row/column per variable, every entry in [0,1],
mini <= mean <= maxi entrywise, array and DataFrame results equal term by term (the frame keeps
its labels), unit diagonal for the identity learner, input cells not written.
r2_score_comparable / comparable_metric: the metric is an uninterpreted recorder R(a, b, kw);
result == R(f(y), g(p)) with 'log'/'exp' resolved to the NumPy functions (uninterpreted LOG/EXP),
ValueError iff both are None, TypeError for a non-callable.
"""
import numpy
import z3
from sklearn.base import BaseEstimator

from .. import harness, loader, sx

MOD = "vf.props.c18"


class FakeFrame:
    """minimal DataFrame model for the frame branch (columns, corr, iloc, copy, /)"""

    def __init__(self, values, columns=None, index=None, **kw):
        self.values_ = values if isinstance(values, numpy.ndarray) else numpy.asarray(values, dtype=object).view(sx.SArr)
        self.columns = list(columns if columns is not None else range(self.values_.shape[1]))
        self.index = list(index) if index is not None else list(self.columns)

    @property
    def shape(self):
        return self.values_.shape

    @property
    def iloc(self):
        return _ILoc(self)

    def corr(self):
        k = self.values_.shape[1]
        z = numpy.empty((k, k), dtype=object)
        z[...] = 0
        return FakeFrame(z.view(sx.SArr), self.columns)

    def copy(self):
        return FakeFrame(self.values_.copy(), self.columns)

    def __truediv__(self, d):
        return FakeFrame(self.values_ / d, self.columns)

    def __array__(self, dtype=None, copy=None):
        return numpy.asarray(self.values_)


class _ILoc:
    def __init__(self, f):
        self.f = f

    def __getitem__(self, k):
        return self.f.values_[k]

    def __setitem__(self, k, v):
        self.f.values_[k] = v


class Learner(BaseEstimator):
    mode = "free"
    C = None
    count = 0
    table = {}

    def __init__(self, alpha=1):
        self.alpha = alpha

    refits = []

    def fit(self, X, y):
        self.k_ = Learner.count
        Learner.count += 1
        self.n_fits_ = getattr(self, "n_fits_", 0) + 1
        if self.n_fits_ > 1:
            Learner.refits.append(self.n_fits_)
        return self

    def predict(self, X):
        if Learner.mode == "identity":
            return X[:, 0]
        C = Learner.C
        out = []
        for r in range(len(X)):
            key = (self.k_, r)
            if key not in Learner.table:
                if C.symbolic:
                    Learner.table[key] = C.real(f"v_{self.k_}_{r}")
                else:
                    # replay: the variance was abstracted in the symbolic run, so the model's values for v are not
                    # meaningful; use predictions far from the (scaled) targets, as an overfitting model produces
                    v = float(C.inputs.get(f"v_{self.k_}_{r}", 0))
                    Learner.table[key] = v if abs(v) > 1e-9 else 3.0 * (-1) ** r + 0.5 * self.k_
            out.append(Learner.table[key])
        return sx.sarr(out) if C.symbolic else numpy.array(out, dtype=object)


class _NP(sx.Conversions):
    def __getattr__(self, k):
        return getattr(numpy, k)

    def zeros(self, shape, dtype=None, **kw):
        return sx.typed_empty(shape, dtype, fill=0)

    def empty(self, shape, dtype=None, **kw):
        return sx.typed_empty(shape, dtype)

    def full(self, shape, fill_value, dtype=None, **kw):
        return sx.typed_empty(shape, dtype, fill=fill_value)

    def corrcoef(self, df, rowvar=True):
        k = df.shape[1]
        z = numpy.empty((k, k), dtype=object)
        z[...] = 0
        return z.view(sx.SArr)

    cache = {}

    def var(self, a):
        """exact when it is a number (e.g. 0 for the identity learner); otherwise an arbitrary
        non-negative real per distinct argument (over-approximation: all the property needs of a variance)"""
        a = numpy.asarray(a, dtype=object).ravel()
        n = len(a)
        m = sx.ssum(list(a)) / n
        v = sx.ssum([(x - m) * (x - m) for x in a]) / n
        if not sx.is_sym(v):
            return v
        t = z3.simplify(sx.term(v))
        if z3.is_rational_value(t):
            return sx.SymReal(t)
        e = sx.cur()
        key = t.get_id()
        if key not in _NP.cache or _NP.cache[key][0] is not e or _NP.cache[key][2] != e.stats.paths:
            f = e.fresh_real("var")
            e.add_definition(f.t >= 0)
            _NP.cache[key] = (e, f, e.stats.paths, t)  # t kept alive: z3 reuses the ids of collected terms
        return _NP.cache[key][1]


def sc_corr(cfg):
    cm = loader.load("metrics.correlations")
    nvar, nrow, draws = cfg["nvar"], cfg["rows"], cfg["draws"]

    def scenario(C):
        Learner.C, Learner.mode = C, cfg["learner"]
        if cfg.get("int_table"):
            # a table of counts: integer-typed (symbolic ints); the coefficients are reals all the same
            if C.symbolic:
                data = sx.int_array([[sx.cur().int(f"d_{i}_{j}", -9, 9) for j in range(nvar)] for i in range(nrow)])
            else:
                data = numpy.array([[int(C.inputs.get(f"d_{i}_{j}", (i * 3 + j * 5) % 7 - 2)) for j in range(nvar)] for i in range(nrow)], dtype=numpy.int64)
        elif C.symbolic:
            data = sx.cur().reals("d", nrow, nvar)
        else:
            data = numpy.array([[float(C.inputs.get(f"d_{i}_{j}", (i * 3 + j * 5) % 7 - 2.5)) for j in range(nvar)] for i in range(nrow)], dtype=object)
        cells = [[data[i, j] for j in range(nvar)] for i in range(nrow)]
        half = nrow // 2
        results = []
        Learner.refits = []
        proto = Learner()
        for branch in ("array", "frame"):
            Learner.count, Learner.table = 0, dict(Learner.table) if branch == "frame" else {}
            Learner.count = 0
            arg = data if branch == "array" else FakeFrame(data, [f"c{j}" for j in range(nvar)])
            with harness.patched(cm, numpy=_NP(), scale=lambda d: numpy.asarray(d.values_ if isinstance(d, FakeFrame) else d), train_test_split=lambda d, test_size=0.5: (d[:half], d[half:])):
                res = cm.non_linear_correlations(arg, proto, draws=draws, minmax=cfg["minmax"])
            results.append(res)
        (ra, rf) = results
        # each (i, j, draw) is learnt by its own fresh clone: the model given is never trained, no clone twice
        # (a warm-starting model would carry what it learnt for one pair over to the next)
        C.true(not hasattr(proto, "k_") and Learner.refits == [], "one-fresh-clone-per-pair(the-model-parameter-is-never-trained)", detail=Learner.refits[:3])
        if cfg["minmax"]:
            C.true(isinstance(ra, tuple) and len(ra) == 3 and isinstance(rf, tuple) and len(rf) == 3, "minmax-returns-three-matrices")
            cor_a, mini_a, maxi_a = ra
            cor_f, mini_f, maxi_f = rf
        else:
            cor_a, cor_f = ra, rf
        C.true(numpy.shape(cor_a) == (nvar, nvar) and isinstance(cor_f, FakeFrame) and cor_f.shape == (nvar, nvar), "square-one-row-and-column-per-variable")
        C.true(isinstance(cor_f, FakeFrame) and cor_f.columns == [f"c{j}" for j in range(nvar)], "frame-keeps-its-labels")
        for i in range(nvar):
            for j in range(nvar):
                v = cor_a[i, j]
                C.true(v >= 0, "entries-in-[0,1]", detail=(i, j))
                C.true(v <= 1, "entries-in-[0,1]", detail=(i, j))
                C.eq(cor_f.values_[i, j], v, "frame-and-array-results-equal", detail=(i, j))
                if cfg["minmax"]:
                    C.true(mini_a[i, j] <= v, "min<=mean<=max", detail=(i, j))
                    C.true(v <= maxi_a[i, j], "min<=mean<=max", detail=(i, j))
                    C.true(mini_a[i, j] >= 0, "entries-in-[0,1]")
                    C.true(maxi_a[i, j] <= 1, "entries-in-[0,1]")
                    C.eq(mini_f.values_[i, j], mini_a[i, j], "frame-and-array-results-equal")
                    C.eq(maxi_f.values_[i, j], maxi_a[i, j], "frame-and-array-results-equal")
            if cfg["learner"] == "identity":
                C.eq(cor_a[i, i], 1, "unit-diagonal-for-the-identity-learner", detail=i)
        C.true(all(data[i, j] is cells[i][j] for i in range(nrow) for j in range(nvar)), "input-not-modified")

    return scenario


class Rec:
    def __init__(self, a, b, kw):
        self.a, self.b, self.kw = a, b, kw


def sc_r2(cfg):
    sm = loader.load("metrics.scoring_metrics")
    OPT = {"none": None, "log": "log", "exp": "exp", "square": (lambda v: v * v), "ident": (lambda v: v), "bad-int": 3, "bad-str": "sqrt"}

    def scenario(C):
        n = 2
        shape = (n, 2) if cfg.get("multi") else (n,)
        if C.symbolic:
            y, p = sx.cur().reals("y", *shape), sx.cur().reals("p", *shape)
            for i in numpy.ndindex(shape):
                C.assume(y[i] > 0)
                C.assume(p[i] > 0)
        else:
            y = numpy.array([float(C.inputs.get("y" + "".join(f"_{k}" for k in i), 1.5 + sum(i) + 3 * i[-1])) for i in numpy.ndindex(shape)]).reshape(shape)
            p = numpy.array([float(C.inputs.get("p" + "".join(f"_{k}" for k in i), 2.5 + sum(i) + 5 * i[-1])) for i in numpy.ndindex(shape)]).reshape(shape)
        tr, inv = OPT[cfg["tr"]], OPT[cfg["inv"]]

        def resolve(f):
            if f == "log":
                return numpy.log
            if f == "exp":
                return numpy.exp
            return f

        with harness.patched(sm, r2_score=lambda a, b, **kw: Rec(a, b, kw)):
            try:
                res = sm.r2_score_comparable(y, p, tr=tr, inv_tr=inv)
            except ValueError:
                C.true(tr is None and inv is None, "refused-only-when-both-are-missing")
                return
            except TypeError:
                C.true(cfg["tr"].startswith("bad") or cfg["inv"].startswith("bad"), "TypeError-only-for-non-callables")
                return
        C.true(not (tr is None and inv is None), "refused-when-both-are-missing")
        C.true(not (cfg["tr"].startswith("bad") or cfg["inv"].startswith("bad")), "non-callable-rejected")
        C.true(isinstance(res, Rec), "delegates-to-r2_score")
        if not isinstance(res, Rec):
            return
        f, g = resolve(tr), resolve(inv)
        ea = f(y) if f is not None else y
        eb = g(p) if g is not None else p
        C.true(numpy.shape(res.a) == shape and numpy.shape(res.b) == shape, "r2_score_comparable=r2_score(f(y),g(p))/shapes-kept", detail=(numpy.shape(res.a), shape))
        if numpy.shape(res.a) == shape and numpy.shape(res.b) == shape:
            for i in numpy.ndindex(shape):
                C.eq(res.a[i], ea[i], "r2_score_comparable=r2_score(f(y),g(p))", detail=("y", i))
                C.eq(res.b[i], eb[i], "r2_score_comparable=r2_score(f(y),g(p))", detail=("p", i))
        C.true(res.kw.get("sample_weight", "missing") is None and res.kw.get("multioutput") == "uniform_average", "keyword-arguments-forwarded")

    return scenario


def sc_corr_real(cfg):
    """concrete: the real scale / train_test_split / LinearRegression on float tables of every memory
    layout -- the caller's table is never modified and the result is a matrix with entries in [0, 1]"""
    cm = loader.load("metrics.correlations")
    from sklearn.linear_model import LinearRegression

    def scenario(C):
        rng = numpy.random.RandomState(3 + C.choice("table", 2))
        base = rng.randn(12, 3) * [1.0, 5.0, 0.2] + [0.0, 10.0, -3.0]
        tables = {
            "C-ordered": numpy.ascontiguousarray(base.copy()),
            "F-ordered": numpy.asfortranarray(base.copy()),
            "transposed-view": numpy.ascontiguousarray(base.T.copy()).T,
            "float32": base.astype(numpy.float32),
            "DataFrame": __import__("pandas").DataFrame(base.copy(), columns=["a", "b", "c"]),
        }
        for name, tab in tables.items():
            snap = numpy.array(tab, dtype=float, copy=True)
            numpy.random.seed(0)
            cor = cm.non_linear_correlations(tab, LinearRegression(), draws=2, minmax=cfg["minmax"])
            mats = cor if isinstance(cor, tuple) else (cor,)
            C.true(numpy.array_equal(numpy.array(tab, dtype=float), snap), "input-not-modified", detail=name)
            for m_ in mats:
                a = numpy.asarray(m_, dtype=float)
                C.true(a.shape == (3, 3) and bool(((a >= 0) & (a <= 1 + 1e-12)).all()), "entries-in-[0,1]", detail=name)

    return scenario


SCEN = dict(corr=sc_corr, r2=sc_r2, corr_real=sc_corr_real)


def run_config(cfg):
    return harness.run_scenario(SCEN[cfg["kind"]](cfg), f"C18{cfg}", cfg=cfg, sig=lambda l: f"{cfg['kind']}:{l}", on_exception_label="raises", engine_opts=dict(logic="QF_NRA") if cfg["kind"] == "corr" else None)


def replay(cfg, inputs, label):
    if label.startswith("one-fresh-clone-per-pair"):
        # the consequence on the real function: a warm-starting model able to learn the identity keeps a unit diagonal
        cm = loader.load("metrics.correlations")
        from sklearn.ensemble import BaggingRegressor
        from sklearn.linear_model import LinearRegression

        rng = numpy.random.RandomState(0)
        tab = rng.randn(40, 3)
        numpy.random.seed(0)
        model = BaggingRegressor(LinearRegression(), n_estimators=3, warm_start=True, random_state=0)
        cor = numpy.asarray(cm.non_linear_correlations(tab, model, draws=2), dtype=float)
        if not numpy.allclose(numpy.diag(cor), 1.0, atol=1e-9) or hasattr(model, "estimators_"):
            return True, dict(model="BaggingRegressor(LinearRegression(), warm_start=True)", diagonal=numpy.diag(cor).tolist(), model_parameter_was_trained=hasattr(model, "estimators_"))
        return False, "unit diagonal with a warm-starting model"
    return harness.replay_scenario(SCEN[cfg["kind"]](cfg), inputs, label, "raises")


def configs(tier):
    out = []
    for learner in ("free", "identity"):
        for minmax in (False, True):
            for nvar, rows, draws in ((1, 4, 1), (2, 4, 1), (1, 4, 2)) if tier == "quick" else ((1, 4, 1), (2, 4, 1), (1, 4, 2), (2, 4, 2), (1, 6, 3), (3, 4, 1)):
                out.append(dict(kind="corr", learner=learner, minmax=minmax, nvar=nvar, rows=rows, draws=draws))
    # more draws than any early-stopping rule needs to trigger; an integer-typed table
    out.append(dict(kind="corr", learner="identity", minmax=True, nvar=1, rows=4, draws=4))
    out.append(dict(kind="corr", learner="free", minmax=False, nvar=2, rows=4, draws=1, int_table=True))
    for minmax in (False, True):
        out.append(dict(kind="corr_real", minmax=minmax))
    for tr, inv in (("log", "exp"), ("square", "none"), ("none", "log"), ("exp", "log")):
        out.append(dict(kind="r2", tr=tr, inv=inv, multi=True))
    for tr in ("none", "log", "exp", "square", "ident", "bad-int", "bad-str"):
        for inv in ("none", "log", "exp", "square", "ident", "bad-int"):
            out.append(dict(kind="r2", tr=tr, inv=inv))
    return out


def run(ctx, rep):
    rep.add_functions("metrics.correlations", ["non_linear_correlations"])
    rep.add_functions("metrics.scoring_metrics", ["comparable_metric", "r2_score_comparable"])
    cfgs = configs(ctx.tier)
    rep.bounds = dict(shapes="(variables, rows, draws) in {(1,4,1),(2,4,1),(1,4,2)} quick + {(2,4,2),(1,6,3),(3,4,1)} thorough", transforms=["None", "'log'", "'exp'", "callable square", "callable identity", "non-callables"])
    rep.assumptions = [
        "scale and train_test_split are stubs (identity; first/second half) -- with symbolic data every split is equivalent; the learner's test-fold predictions are arbitrary symbolic reals (or the identity)",
        "the DataFrame branch runs on a minimal frame model (corr/iloc/copy/division/labels)",
        "numpy.var: exact when it is a number, otherwise an arbitrary non-negative real per distinct argument (over-approximation); x**0.5 = fresh s >= 0 with s*s = x; numpy.log/exp uninterpreted with inverse-pair axioms",
        "r2_score replaced by an uninterpreted recorder",
    ]
    rep.outside = ["what a real model learns", "scikit-learn's scale / r2_score internals", "float round-off (DataFrame and array results differ in the last bits on real floats)"]
    rep.absorb(harness.pmap(MOD, "run_config", cfgs), layer="scenarios")

    def twin(e):
        c = e.real("c")
        e.assume(c <= 1)
        s = abs(c) ** 0.5
        e.prove(s <= 1, "twin")

    eng = sx.Engine(name="C18-twin", logic="QF_NRA")
    eng.explore(twin)
    rep.vacuity.append(dict(twin="sqrt(|c|) <= 1 for c <= 1 (false for c < -1)", refuted=bool(eng.cex)))
    if not eng.cex:
        rep.error("vacuity twin was not refuted")
