"""C02 -- fit/predict never alter hyper-parameters or caller data, even when fit fails.

SX, dual-mode scenarios with a SYMBOLIC FAULT SCHEDULE: every collaborator call site owns a
symbolic Bool; the collaborator raises iff it is true, so every combination of failing and
succeeding calls is explored.  Hyper-parameters the code rewrites are symbolic (max_iter as a
symbolic int >= 1).  After EVERY path, normal or exceptional: get_params() is what it was, the
caller's X / y / sample_weight cells are the same objects, a normal fit returns self; and after a
failed fit a fault-free fit on the same instance behaves like one on a fresh clone (what the parent
class is handed is compared).
Covered: ConstraintKMeans.fit (max_iter halved around the parent fit), PiecewiseTreeRegressor.fit
(criterion replaced by a compiled object around the parent fit), PiecewiseRegressor.fit (k-th
local model failing), IntervalRegressor.fit (k-th member failing), QuantileLinearRegression.fit
(inner solver failing at iteration j) and .score (caller's float64 weights), TransformedTarget
Regressor2/Classifier2.fit (inner fit failing), PredictableTSNE.fit (perplexity clamp),
KMeansL1L2.fit.
"""
import numpy
from sklearn.base import BaseEstimator, clone

from .. import harness, loader, sx

MOD = "vf.props.c02"


class Fault(Exception):
    """the failure injected into a collaborator"""


def _params_equal(C, before, after, label):
    C.true(sorted(before) == sorted(after), label + "/keys")
    for k in before:
        a, b = before[k], after.get(k)
        if sx.is_sym(a) or sx.is_sym(b):
            C.eq(b, a, label, detail=k)
        elif isinstance(a, (int, float, str, bool, type(None))):
            C.true(type(a) is type(b) and a == b, label, detail=(k, repr(a)[:40], repr(b)[:60]))
        else:
            C.true(a is b, label, detail=(k, type(b).__name__))


def _same_cells(arr, cells):
    return all(arr[idx] is c or (not sx.is_sym(c) and arr[idx] == c) for idx, c in cells)


def _cells(arr):
    return [(idx, arr[idx]) for idx in numpy.ndindex(arr.shape)]


def _sym_or(C, name, default):
    return sx.cur().real(name) if C.symbolic else float(C.inputs.get(name, default))


def _matrix(C, name, n, d):
    if C.symbolic:
        return sx.cur().reals(name, n, d)
    return numpy.array([[float(C.inputs.get(f"{name}_{i}_{j}", i * 2.0 + j + 0.5)) for j in range(d)] for i in range(n)], dtype=object)


def _vector(C, name, n):
    if C.symbolic:
        return sx.cur().reals(name, n)
    return numpy.array([float(C.inputs.get(f"{name}_{i}", i + 1.25)) for i in range(n)], dtype=object)


# ------------------------------------------------------------------ ConstraintKMeans


def sc_ckm(cfg):
    kc = loader.load("mlmodel.kmeans_constraint")

    def scenario(C):
        mi = C.int("max_iter", 1, 1000)
        est = kc.ConstraintKMeans(n_clusters=2, max_iter=mi, kmeans0=cfg["kmeans0"], strategy=cfg["strategy"], random_state=0)
        before = est.get_params()
        X = _matrix(C, "X", 3, 1)
        xc = _cells(X)
        handed = []
        f_parent, f_ckm = C.bool("fail_parent_fit"), C.bool("fail_constraint_kmeans")

        def parent_fit(self, Xa, y=None, sample_weight=None):
            handed.append(("parent", self.max_iter))
            if f_parent:
                raise Fault("parent KMeans.fit")
            self.labels_ = numpy.zeros(3, dtype=numpy.int32)
            self.cluster_centers_ = Xa[:2]
            self.inertia_ = 1.0
            self.n_iter_ = 1
            return self

        def ckm(Xa, labels, sw, centers, **kw):
            handed.append(("constraint_kmeans", kw.get("max_iter")))
            if f_ckm:
                raise Fault("constraint_kmeans")
            return labels, centers, 0.5, None, 1, []

        f_init = C.bool("fail_random_init") if not cfg["kmeans0"] else False

        class NPF:
            """the random initialisation (kmeans0=False) may fail too"""

            def __getattr__(self, k):
                return getattr(numpy, k)

            class random:  # noqa: N801
                @staticmethod
                def RandomState(seed=None):
                    if f_init:
                        raise Fault("random initialisation")
                    return numpy.random.RandomState(seed)

        with harness.patched(kc.KMeans, fit=parent_fit), harness.patched(kc, constraint_kmeans=ckm, numpy=NPF()):
            try:
                r = est.fit(X)
                C.true(r is est, "fit-returns-self")
                ok = True
            except Fault:
                ok = False
            _params_equal(C, before, est.get_params(), "ConstraintKMeans/hyper-parameters-unchanged" + ("" if ok else "-after-a-failed-fit"))
            C.true(_same_cells(X, xc), "ConstraintKMeans/caller-X-untouched")
            # a later fault-free fit hands the parent what a fresh clone would
            if not ok:
                f2 = []

                def parent_fit2(self, Xa, y=None, sample_weight=None):
                    f2.append(self.max_iter)
                    return parent_fit_ok(self, Xa)

                def parent_fit_ok(self, Xa):
                    self.labels_ = numpy.zeros(3, dtype=numpy.int32)
                    self.cluster_centers_ = Xa[:2]
                    self.inertia_ = 1.0
                    self.n_iter_ = 1
                    return self

                def ckm_ok(Xa, labels, sw, centers, **kw):
                    f2.append(kw.get("max_iter"))
                    return labels, centers, 0.5, None, 1, []

                with harness.patched(kc.KMeans, fit=parent_fit2), harness.patched(kc, constraint_kmeans=ckm_ok, numpy=numpy):
                    est.fit(X)
                want = ([mi // 2] if cfg["kmeans0"] else []) + [mi]
                C.true(len(f2) == len(want), "ConstraintKMeans/refit-after-failure==fresh-fit/calls")
                for g, w in zip(f2, want):
                    C.eq(g, w, "ConstraintKMeans/refit-after-failure==fresh-fit")

    return scenario


# ------------------------------------------------------------------ PiecewiseTreeRegressor


def sc_ptr(cfg):
    ptr = loader.load("mlmodel.piecewise_tree_regression", with_ext=True)

    def scenario(C):
        est = ptr.PiecewiseTreeRegressor(criterion=cfg["criterion"], max_depth=2)
        before = est.get_params()
        X = numpy.arange(8.0).reshape(-1, 1)
        y = numpy.arange(8.0) * 2
        X0, y0 = X.copy(), y.copy()
        f_parent = C.bool("fail_parent_fit")
        seen = []

        def parent_fit(self, Xa, ya, sample_weight=None, check_input=True):
            seen.append(type(self.criterion).__name__)
            if f_parent:
                raise Fault("DecisionTreeRegressor.fit")
            self.tree_ = None
            return self

        f_reglin = C.bool("fail_leaf_regressions")

        def fit_reglin(self, Xa, ya, sw):
            if f_reglin:  # e.g. weights the tree builder accepts and the per-leaf regressions refuse
                raise Fault("PiecewiseTreeRegressor._fit_reglin")

        with harness.patched(ptr.DecisionTreeRegressor, fit=parent_fit), harness.patched(ptr.PiecewiseTreeRegressor, _fit_reglin=fit_reglin):
            try:
                r = est.fit(X, y)
                C.true(r is est, "fit-returns-self")
                ok = True
            except Fault:
                ok = False
        C.true(len(seen) == 1 and (seen[0] != "str" or cfg["criterion"] not in ("mselin", "simple")), "PiecewiseTreeRegressor/criterion-object-handed-to-the-tree-builder")
        _params_equal(C, before, est.get_params(), "PiecewiseTreeRegressor/hyper-parameters-unchanged" + ("" if ok else "-after-a-failed-fit"))
        C.true(numpy.array_equal(X, X0) and numpy.array_equal(y, y0), "PiecewiseTreeRegressor/caller-data-untouched")

    return scenario


# ------------------------------------------------------------------ recording / failing local models


class Member(BaseEstimator):
    log = None
    faults = None

    def __init__(self, alpha=1):
        self.alpha = alpha

    def fit(self, X, y, sample_weight=None):
        k = len(Member.log)
        Member.log.append(self)
        if k < len(Member.faults) and Member.faults[k]:
            raise Fault(f"member {k}")
        self.coef_ = k
        return self

    def predict(self, X):
        return numpy.zeros(len(X))


def sc_piecewise(cfg):
    from . import c08

    pe = loader.load("mlmodel.piecewise_estimator")

    def scenario(C):
        Member.log, Member.faults = [], [C.bool(f"fail_member{k}") for k in range(3)]
        n = 3
        X = numpy.empty((n, 2), dtype=object)
        xs = _vector(C, "x", n)
        for i in range(n):
            X[i, 0], X[i, 1] = xs[i], i % 2
        y, w = _vector(C, "y", n), _vector(C, "w", n)
        cx, cy, cw = _cells(X), _cells(y), _cells(w)
        inner = Member()
        binner = c08.StubTree(n_leaves=2)
        est = pe.PiecewiseRegressor(binner=binner, estimator=inner)
        before = est.get_params(deep=True)
        weighted = bool(C.bool("with_sample_weight"))
        with harness.patched(pe, Parallel=c08.make_parallel(False), delayed=lambda f: (lambda *a, **k: (f, a, k))):
            try:
                r = est.fit(X, y, sample_weight=w) if weighted else est.fit(X, y)
                C.true(r is est, "fit-returns-self")
                ok = True
            except Fault:
                ok = False
        _params_equal(C, before, est.get_params(deep=True), "PiecewiseRegressor/hyper-parameters-unchanged" + ("" if ok else "-after-a-failed-fit"))
        C.true(not hasattr(inner, "coef_"), "PiecewiseRegressor/the-estimator-parameter-is-never-fitted(clones-are)")
        C.true(not hasattr(binner, "tree_") and (not ok or est.binner_ is not binner), "PiecewiseRegressor/the-binner-parameter-is-never-fitted(its-clone-is)", detail=dict(weighted=weighted))
        C.true(_same_cells(X, cx) and _same_cells(y, cy) and _same_cells(w, cw), "PiecewiseRegressor/caller-data-untouched")

    return scenario


def sc_interval(cfg):
    from . import c17

    ir = loader.load("mlmodel.interval_regressor")

    def scenario(C):
        Member.log, Member.faults = [], [C.bool(f"fail_member{k}") for k in range(3)]
        n = 3
        X, y, w = _matrix(C, "X", n, 1), _vector(C, "y", n), _vector(C, "w", n)
        cx, cy, cw = _cells(X), _cells(y), _cells(w)
        inner = Member()
        est = ir.IntervalRegressor(estimator=inner, n_estimators=3, alpha=1.0)
        before = est.get_params(deep=True)
        with harness.patched(ir, Parallel=c17.SeqParallel, delayed=c17.seq_delayed):
            try:
                r = est.fit(X, y, sample_weight=w)
                C.true(r is est, "fit-returns-self")
                ok = True
            except Fault:
                ok = False
        _params_equal(C, before, est.get_params(deep=True), "IntervalRegressor/hyper-parameters-unchanged" + ("" if ok else "-after-a-failed-fit"))
        C.true(not hasattr(inner, "coef_"), "IntervalRegressor/the-estimator-parameter-is-never-fitted(clones-are)")
        C.true(_same_cells(X, cx) and _same_cells(y, cy) and _same_cells(w, cw), "IntervalRegressor/caller-data-untouched")

    return scenario


# ------------------------------------------------------------------ QuantileLinearRegression


def sc_quantile(cfg):
    from . import c05

    qr = loader.load("mlmodel.quantile_regression")

    def scenario(C):
        n = 2
        # only the targets are symbolic: the exit test of the loop compares two sums of w*c(q)*|y - x.beta|,
        # which is linear that way (the arithmetic of the loop is C05's subject; here: faults and caller data)
        X = numpy.array([[1.0], [2.0]], dtype=object)
        y = _vector(C, "y", n)
        w = numpy.array([1.5, 0.5], dtype=object)
        cx, cy, cw = _cells(X), _cells(y), _cells(w)
        q = 0.25
        fails = [C.bool(f"fail_solver{k}") for k in range(2)]

        class Failing(c05.StubLR):
            def fit(self, Xm, yy, sample_weight=None):
                k = sum(1 for r in c05.StubLR.log if r[0] == "fit")
                if k < len(fails) and fails[k]:
                    c05.StubLR.log.append(("fit", Xm, yy, sample_weight, None))
                    raise Fault(f"inner solver {k}")
                return super().fit(Xm, yy, sample_weight)

        with_intercept = bool(C.bool("fit_intercept"))
        est = qr.QuantileLinearRegression(quantile=q, max_iter=2, delta=0.5, fit_intercept=with_intercept)
        before = est.get_params()
        c05.StubLR.log = []
        if C.symbolic:
            stubs = dict(numpy=c05._NP(), LinearRegression=Failing)
        else:
            stubs = dict(LinearRegression=Failing)

            class Conc(Failing):
                def fit(self, Xm, yy, sample_weight=None):
                    k = sum(1 for r in c05.StubLR.log if r[0] == "fit")
                    c05.StubLR.log.append(("fit", Xm, yy, sample_weight, None))
                    if k < len(fails) and fails[k]:
                        raise Fault(f"inner solver {k}")
                    self.coef_ = numpy.ones(Xm.shape[1]) * 0.5
                    return self

            stubs = dict(LinearRegression=Conc)
            X, y, w = X.astype(float), y.astype(float), w.astype(float)
            cx, cy, cw = _cells(X), _cells(y), _cells(w)
        with harness.patched(qr, **stubs):
            try:
                r = est.fit(X, y, sample_weight=w)
                C.true(r is est, "fit-returns-self")
                ok = True
            except Fault:
                ok = False
        _params_equal(C, before, est.get_params(), "QuantileLinearRegression/hyper-parameters-unchanged" + ("" if ok else "-after-a-failed-fit"))
        inits = [r for r in c05.StubLR.log if r[0] == "init"]
        handed = [r for r in c05.StubLR.log if r[0] == "fit" and r[1] is X]
        # LinearRegression(copy_X=False).fit may overwrite what it is given: the caller's own array may only
        # reach the inner solver together with copy_X=True
        C.true(not handed or all(r[1].get("copy_X", True) is True for r in inits), "QuantileLinearRegression/the-caller's-X-is-never-handed-over-for-in-place-work(copy_X)", detail=dict(fit_intercept=with_intercept, inits=[r[1] for r in inits]))
        C.true(_same_cells(X, cx) and _same_cells(y, cy) and _same_cells(w, cw), "QuantileLinearRegression/fit-leaves-caller-data-untouched")
        # score must not write into a caller's float64 weight vector (in-place arithmetic on an alias)
        est2 = qr.QuantileLinearRegression(quantile=0.25 if cfg["q"] == "low" else (0.5 if cfg["q"] == "half" else 0.8))
        est2.coef_, est2.intercept_ = numpy.array([1.0]), 0.0
        Xs = numpy.array([[0.5], [2.0], [3.5]])
        ys = numpy.array([1.0, 1.0, 4.0])
        ws = numpy.array([1.0, 2.0, 3.0])
        ws0, Xs0, ys0 = ws.copy(), Xs.copy(), ys.copy()
        s1 = est2.score(Xs, ys, sample_weight=ws)
        s2 = est2.score(Xs, ys, sample_weight=ws)
        C.true(numpy.array_equal(ws, ws0) and numpy.array_equal(Xs, Xs0) and numpy.array_equal(ys, ys0), "QuantileLinearRegression/score-leaves-caller-data-untouched", detail=ws.tolist())
        C.true(s1 == s2, "QuantileLinearRegression/repeated-score-agrees")

    return scenario


# ------------------------------------------------------------------ TransformedTarget*, PredictableTSNE, KMeansL1L2


class Inner(BaseEstimator):
    fail = None

    def __init__(self, alpha=1):
        self.alpha = alpha

    def fit(self, X, y=None, sample_weight=None):
        if Inner.fail:
            raise Fault("inner fit")
        self.coef_ = 1
        self.classes_ = numpy.array(sorted(set(numpy.asarray(y).tolist()))) if (y is not None and numpy.ndim(y) == 1) else None
        self.shape_ = numpy.shape(y)[1:] if y is not None else ()
        return self

    def predict(self, X):
        return numpy.zeros((len(X),) + tuple(self.shape_))


class TsneLike(BaseEstimator):
    def __init__(self, perplexity=30.0):
        self.perplexity = perplexity

    def fit_transform(self, X, y=None):
        if Inner.fail:
            raise Fault("transformer.fit_transform")
        return numpy.column_stack([numpy.arange(len(X)) * 1.0, numpy.arange(len(X)) * 2.0 + 1])


def sc_wrappers(cfg):
    tp = loader.load("mlmodel.target_predictors")
    pt = loader.load("mlmodel.predictable_tsne")
    km = loader.load("mlmodel.kmeans_l1")

    def scenario(C):
        Inner.fail = C.bool("fail_inner")
        kwargs = {}
        X = numpy.arange(6.0).reshape(-1, 1) + 1
        y = numpy.array([1.0, 2.0, 4.0, 3.0, 5.0, 6.0])
        yc = numpy.array([0, 1, 0, 1, 0, 1])
        X0, y0 = X.copy(), y.copy()
        which = cfg["which"]
        if which == "ttr":
            inner = Inner()
            est = tp.TransformedTargetRegressor2(regressor=inner, transformer="log")
            args = (X, y)
        elif which == "ttr_default":
            inner = None  # regressor=None: the documented default (a LinearRegression) is built at fit time
            est = tp.TransformedTargetRegressor2(regressor=None, transformer="log")
            args = (X, y)
        elif which == "ttc":
            inner = Inner()
            est = tp.TransformedTargetClassifier2(classifier=inner, transformer="permute")
            args = (X, yc)
        elif which == "tsne":
            inner = Inner()
            est = pt.PredictableTSNE(transformer=TsneLike(perplexity=30.0), estimator=inner)
            args = (X, y)
        else:
            inner = None
            est = km.KMeansL1L2(n_clusters=2, norm="L1", n_init=1, random_state=0, max_iter=3)
            args = (X,)
            # the caller's weight vector (float64: validation hands back the very same array) is read-only for fit;
            # non-uniform weights are refused by the L1 code (NotImplementedError) -- a failed fit like any other
            wmode = C.choice("weights", 3)
            sw = [None, numpy.full(6, 2.0), numpy.array([1.0, 2.0, 3.0, 1.0, 2.0, 3.0])][wmode]
            sw0 = None if sw is None else sw.copy()
            kwargs = dict(sample_weight=sw)
        before = est.get_params(deep=True)
        import contextlib

        default_stub = harness.patched(tp, LinearRegression=Inner) if which == "ttr_default" else contextlib.nullcontext()
        if which in ("ttr", "ttc", "ttr_default") and bool(C.bool("with_sample_weight")):
            kwargs = dict(sample_weight=numpy.arange(6.0) + 1)
        try:
            with default_stub:
                r = est.fit(*args, **kwargs)
            C.true(r is est, "fit-returns-self")
            ok = True
        except Fault:
            ok = False
        except NotImplementedError:
            C.true(which == "kml1" and wmode == 2, "unexpected-exception", detail="NotImplementedError")
            ok = False
        if which == "kml1" and sw is not None:
            C.true(numpy.array_equal(sw, sw0), "KMeansL1L2/caller's-sample_weight-untouched", detail=sw.tolist())
        _params_equal(C, before, est.get_params(deep=True), f"{type(est).__name__}/hyper-parameters-unchanged" + ("" if ok else "-after-a-failed-fit"))
        if inner is not None:
            C.true(not hasattr(inner, "coef_"), f"{type(est).__name__}/the-estimator-parameter-is-never-fitted(clones-are)")
        C.true(numpy.array_equal(X, X0) and numpy.array_equal(y, y0), f"{type(est).__name__}/caller-data-untouched")
        if ok and which != "tsne":
            p = est.get_params(deep=True)
            est.predict(X)
            _params_equal(C, p, est.get_params(deep=True), f"{type(est).__name__}/predict-leaves-hyper-parameters-unchanged")
            C.true(numpy.array_equal(X, X0), f"{type(est).__name__}/caller-data-untouched")

    return scenario


SCEN = dict(ckm=sc_ckm, ptr=sc_ptr, piecewise=sc_piecewise, interval=sc_interval, quantile=sc_quantile, wrappers=sc_wrappers)


def run_config(cfg):
    return harness.run_scenario(SCEN[cfg["kind"]](cfg), f"C02{cfg}", cfg=cfg, sig=lambda l: l, on_exception_label="unexpected-exception")


def replay(cfg, inputs, label):
    return harness.replay_scenario(SCEN[cfg["kind"]](cfg), inputs, label, "unexpected-exception")


def configs(tier):
    out = []
    for kmeans0 in (True, False):
        for strategy in ("gain", "distance"):
            out.append(dict(kind="ckm", kmeans0=kmeans0, strategy=strategy))
    for crit in ("mselin", "simple", "squared_error"):
        out.append(dict(kind="ptr", criterion=crit))
    out.append(dict(kind="piecewise"))
    out.append(dict(kind="interval"))
    for q in ("low", "half", "high"):
        out.append(dict(kind="quantile", q=q))
    for which in ("ttr", "ttc", "tsne", "kml1"):
        out.append(dict(kind="wrappers", which=which))
    out.append(dict(kind="wrappers", which="ttr_default"))
    return out


def run(ctx, rep):
    loader.install(with_ext=True)
    rep.add_functions("mlmodel.kmeans_constraint", ["ConstraintKMeans.fit"])
    rep.add_functions("mlmodel.piecewise_tree_regression", ["PiecewiseTreeRegressor.fit"])
    rep.add_functions("mlmodel.piecewise_estimator", ["PiecewiseEstimator.fit", "_fit_piecewise_estimator"])
    rep.add_functions("mlmodel.interval_regressor", ["IntervalRegressor.fit"])
    rep.add_functions("mlmodel.quantile_regression", ["QuantileLinearRegression.fit", "QuantileLinearRegression.score", "QuantileLinearRegression._epsilon"])
    rep.add_functions("mlmodel.target_predictors", ["TransformedTargetRegressor2.fit", "TransformedTargetClassifier2.fit"])
    rep.add_functions("mlmodel.predictable_tsne", ["PredictableTSNE.fit"])
    rep.add_functions("mlmodel.kmeans_l1", ["KMeansL1L2.fit"])
    cfgs = configs(ctx.tier)
    rep.bounds = dict(fault_points="parent KMeans.fit, constraint_kmeans, DecisionTreeRegressor.fit, each of 3 local models / 3 bootstrap members, each of 2 inner least-squares calls, inner regressor/classifier/transformer -- every combination (symbolic Bools)", rows="2-8", max_iter="symbolic int in [1, 1000]", history="fit (fails or not); then a fault-free fit compared with a fresh clone; fit then predict; score twice")
    rep.assumptions = [
        "collaborators (scikit-learn parents, inner estimators, joblib) are stubs that raise exactly when their symbolic fault flag says so; the real trigger (NaN in X, a raising user estimator) is used only to illustrate a finding",
        "caller data: identity of every cell (symbolic runs) / array equality (concrete float arrays)",
        "get_params(deep=True) compared key by key: symbolic ints by the solver, objects by identity",
    ]
    rep.outside = ["failures inside scikit-learn's own validation (represented by the stubbed parent raising)", "estimators not listed above"]
    rep.absorb(harness.pmap(MOD, "run_config", cfgs), layer="scenarios")

    def twin(e):
        mi = e.int("mi", 1, 1000)
        e.prove_eq(mi // 2, mi, "twin")

    eng = sx.Engine(name="C02-twin")
    eng.explore(twin)
    rep.vacuity.append(dict(twin="max_iter // 2 == max_iter", refuted=bool(eng.cex)))
    if not eng.cex:
        rep.error("vacuity twin was not refuted")
