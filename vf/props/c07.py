"""C07 -- ConstraintKMeans produces clusters of equal size.

Four layers (each says what it is):
 1. exact, end to end, tiny: the real _constraint_association_distance/_gain (incl. _switch_clusters,
    _randomize_index, linearize_matrix, the argsorts) on a fully symbolic distance matrix, every
    initial label vector realised, for (n,k) in {(2,2),(3,2)} (+(4,2),(3,3) thorough).
 2. `distance`, inductive step for ALL n (k <= 4): the body of `for ind in sorted_index` is sliced
    from the current source and run once from an ARBITRARY state satisfying the invariant
        counters[c] <= limit + [leftclose[c]==0],  leftclose[c]==0 => counters[c]==limit+1,
        nover = leftover - #{c: leftclose[c]==0} >= 0,
        sum(counters) < n = k*limit + leftover, 0 <= leftover < k
    with symbolic limit/leftover/counters and an arbitrary (symbolic, lazily realised) preference
    order of the point: the point gets a valid label, exactly that counter grows by one, the
    invariant is preserved; and invariant & sum(counters)=n => every size is limit or limit+1.
    Any n, any processing order, any distances.
 3. `gain`, quota lemma for ALL n (k <= 4): the straight-line region of
    _constraint_association_gain that turns the initial histogram into per-cluster quotas is
    sliced out and run with symbolic cluster counts: afterwards leftclose[c] <= 1 must hold
    (necessary for the size property: the main loop never takes a cluster below ave+leftclose[c]).
 4. `gain` main loop, one step from an ARBITRARY bookkeeping state (n <= 3/4 points, k = 3, symbolic
    quotas, gains and waiting lists materialised on demand under the list invariant): counters stay
    the histogram of labels, every point that changes cluster is marked closed (otherwise its entries
    in other waiting lists go stale unmarked and a later exchange moves a point out of the wrong
    cluster), flags are monotone, the waiting-list invariant is preserved.
 4. `gain` main loop, one step for all n (k <= 3): the body of the main `for i` loop is run from an
    arbitrary consistent bookkeeping state: counters stay the histogram of labels.
"""
import itertools
from fractions import Fraction

import numpy
import z3

from .. import harness, loader, slicer, sx

MOD = "vf.props.c07"


class _NP(sx.Conversions):
    """numpy for _kmeans_constraint_ under SX"""

    def __init__(self, rnd):
        self.random = rnd

    def __getattr__(self, n):
        return getattr(numpy, n)

    def empty(self, shape, dtype=None, **k):
        if dtype is not None and numpy.dtype(dtype).kind in "iub":
            return numpy.empty(shape, dtype=dtype)
        return numpy.empty(shape, dtype=object).view(sx.SArr)


class _Rnd:
    def __init__(self, e):
        self.e = e
        self.k = 0

    def rand(self, n):
        out = []
        for i in range(n):
            r = self.e.real(f"rand{self.k}_{i}")
            self.e.add_definition(z3.And(r.t >= 0, r.t < 1))
            out.append(r)
        self.k += 1
        return sx.sarr(out)

    def permutation(self, a):
        n = len(a)
        vs = [self.e.int(f"perm{self.k}_{i}", 0, n - 1) for i in range(n)]
        self.k += 1
        if n > 1:
            self.e.add_definition(z3.Distinct(*[v.t for v in vs]))
        return numpy.array([a[self.e.realize(v)] for v in vs])

    def RandomState(self, seed=None):
        return self

    max_draws = None

    def randint(self, lo, hi=None, size=None):
        self.ndraws = getattr(self, "ndraws", 0) + 1
        if self.max_draws is not None and self.ndraws > self.max_draws:
            raise sx.SXAbortPath()  # stated bound of the quick tier: draw sequences longer than max_draws are not explored
        v = self.e.int(f"randint{self.k}", lo, hi - 1)
        self.k += 1
        return self.e.realize(v)


def _sizes_ok(labels, n, k):
    lab = [int(v) for v in labels]
    if any(not 0 <= v < k for v in lab):
        return False
    cnt = [lab.count(c) for c in range(k)]
    return all(c in (n // k, -(-n // k)) for c in cnt) and sum(cnt) == n


# ------------------------------------------------------------------ layer 1: tiny, end to end


def run_e2e(cfg):
    m = loader.load("mlmodel._kmeans_constraint_")
    n, k, strategy = cfg["n"], cfg["k"], cfg["strategy"]

    def h(e):
        D = e.reals("d", k, n)  # euclidean_distances(centers, X): k x n, squared, >= 0
        for i in range(k):
            for j in range(n):
                e.add_definition(D[i, j].t >= 0)
        rnd = _Rnd(e)
        labels = numpy.empty(n, dtype=numpy.int32)
        if strategy == "gain":
            for i in range(n):
                labels[i] = e.realize(e.int(f"lab{i}", 0, k - 1))
        counters = numpy.empty(k, dtype=numpy.int32)
        leftclose = numpy.empty(k, dtype=numpy.int32)
        dclose = numpy.empty(n, dtype=object).view(sx.SArr)
        limit = n // k
        with harness.patched(m, numpy=_NP(rnd), euclidean_distances=lambda *a, **kw: D.copy()):
            m._constraint_association(n - limit * k, counters, labels, leftclose, dclose, None, _Shape(n), None, limit, strategy, state=rnd)
        e.prove(_sizes_ok(labels, n, k), f"sizes/{strategy}", detail=[int(v) for v in labels])

    eng = sx.Engine(name=f"C07{cfg}", max_paths=400000)
    eng.abstract_squares = True  # _switch_clusters compares sums of squares of the (already arbitrary) distances
    eng.abstract_division = True  # _randomize_index divides by the spread of the distances

    def on_exc(e, exc):
        e.prove(False, f"raises/{strategy}", detail=f"{type(exc).__name__}: {exc}")

    eng.explore(h, on_exception=on_exc)
    viol = []
    for c in eng.cex[:1]:
        ok, obs = replay(cfg, c.inputs, c.label)
        viol.append(harness.violation(c.label, f"{c.label}/n%k={n % k}", cfg, c.inputs, obs, ok))
    return dict(stats=eng.stats.as_dict(), violations=viol)


class _Shape:
    def __init__(self, n):
        self.shape = (n, 1)


# ------------------------------------------------------------------ layer 1b: the real predict, tiny


def run_predict(cfg):
    """ConstraintKMeans.predict itself (not only the association it delegates to): balanced -> sizes;
    not balanced -> exactly what KMeans.predict (nearest centre) answers.  KMeans.predict is the stub
    `first argmin of the symbolic distance matrix`."""
    m = loader.load("mlmodel._kmeans_constraint_")
    kc = loader.load("mlmodel.kmeans_constraint")
    n, k, strategy = cfg["n"], cfg["k"], cfg["strategy"]

    def h(e):
        D = e.reals("d", k, n)
        for i in range(k):
            for j in range(n):
                e.add_definition(D[i, j].t >= 0)
        rnd = _Rnd(e)

        class KM:
            @staticmethod
            def predict(self, X):
                out = []
                for j in range(n):
                    best = 0
                    for c in range(1, k):
                        if D[c, j] < D[best, j]:
                            best = c
                    out.append(best)
                return numpy.array(out, dtype=numpy.int32)

        est = kc.ConstraintKMeans(n_clusters=k, strategy=strategy, balanced_predictions=cfg["balanced"], random_state=e.realize(e.int("seeded", 0, 1)) or None)
        est.weights_ = None
        est.cluster_centers_ = numpy.zeros((k, 1))
        X = numpy.empty((n, 1), dtype=object)
        near = KM.predict(est, X)
        with harness.patched(m, numpy=_NP(rnd), euclidean_distances=lambda *a, **kw: D.copy(), row_norms=lambda *a, **kw: None), harness.patched(kc, numpy=_NP(rnd), KMeans=KM):
            labels = est.predict(X)
        if cfg["balanced"]:
            e.prove(_sizes_ok(labels, n, k), f"predict(balanced)/sizes/{strategy}", detail=[int(v) for v in labels])
        else:
            e.prove([int(v) for v in labels] == [int(v) for v in near], "predict(not-balanced)/nearest-centre", detail=[int(v) for v in labels])

    eng = sx.Engine(name=f"C07{cfg}", max_paths=400000)
    eng.abstract_squares = True
    eng.abstract_division = True

    def on_exc(e, exc):
        e.prove(False, f"predict/raises/{strategy}", detail=f"{type(exc).__name__}: {exc}")

    eng.explore(h, on_exception=on_exc)
    viol = []
    for c in eng.cex[:1]:
        ok, obs = replay(cfg, c.inputs, c.label)
        viol.append(harness.violation(c.label, f"{c.label}/n%k={n % k}", cfg, c.inputs, obs, ok))
    return dict(stats=eng.stats.as_dict(), violations=viol)


# ------------------------------------------------------------------ layer 1d: balanced predictions, any batch size


class _SymRows:
    """a batch whose number of rows is a symbolic integer; slicing clamps like NumPy"""

    dtype = numpy.dtype("float64")

    def __init__(self, n, whole=True):
        self.n, self.whole = n, whole
        self.shape = (n, 1)

    def __len__(self):
        return int(self.n)

    def __getitem__(self, sl):
        if isinstance(sl, slice) and sl.step in (None, 1):
            a = 0 if sl.start is None else sl.start
            b = self.n if sl.stop is None else sx.sif(sl.stop < self.n, sl.stop, self.n) if sx.is_sym(self.n) or sx.is_sym(sl.stop) else min(sl.stop, self.n)
            return _SymRows(b - a, whole=False)
        raise sx.SXError("unsupported indexing of the symbolic batch")


class _NPB(_NP):
    def concatenate(self, parts, *a, **k):
        parts = list(parts)
        if any(isinstance(p_, _SymRows) for p_ in parts):
            return _SymRows(sx.ssum([p_.n for p_ in parts]), whole=False)
        if all(p_ is None for p_ in parts):
            return None
        return numpy.concatenate(parts, *a, **k)

    def empty(self, shape, dtype=None, **k):
        if any(sx.is_sym(v) for v in (shape if isinstance(shape, tuple) else (shape,))):
            return _SymRows(shape[0] if isinstance(shape, tuple) else shape, whole=False)
        return super().empty(shape, dtype=dtype, **k)


def run_predict_batch(cfg):
    """constraint_predictions on a batch of SYMBOLIC size n (k <= n <= nmax): the association that enforces the
    sizes runs once, on the whole batch, with limit = n // k and leftover = n - limit*k (balancing parts of the
    batch separately does not balance the batch)"""
    m = loader.load("mlmodel._kmeans_constraint_")
    k = cfg["k"]

    def h(e):
        n = e.int("n", k, cfg["nmax"])
        calls = []

        def assoc(leftover, counters, labels, leftclose, dclose, centers, X, xsn, limit, strategy, state=None):
            calls.append(dict(leftover=leftover, limit=limit, rows=X.shape[0], labels=labels.shape[0], whole=getattr(X, "whole", None)))
            return None

        rnd = _Rnd(e)
        with harness.patched(m, numpy=_NPB(rnd), row_norms=lambda *a, **kw: None, _constraint_association=assoc):
            m.constraint_predictions(_SymRows(n), numpy.zeros((k, 1)), cfg["strategy"], state=None)
        e.prove(len(calls) == 1, "predict(balanced)/one-association-over-the-whole-batch", detail=len(calls))
        c = calls[0]
        e.prove_eq(c["rows"], n, "predict(balanced)/one-association-over-the-whole-batch")
        e.prove_eq(c["labels"], n, "predict(balanced)/one-association-over-the-whole-batch")
        e.prove_eq(c["limit"] * k + c["leftover"], n, "predict(balanced)/quota=n//k,leftover=n-k*quota")
        e.prove(sx.SymBool(z3.And(sx.term(c["leftover"]) >= 0, sx.term(c["leftover"]) < k)) if sx.is_sym(c["leftover"]) else 0 <= c["leftover"] < k, "predict(balanced)/quota=n//k,leftover=n-k*quota")

    eng = sx.Engine(name=f"C07{cfg}")
    eng.explore(h, on_exception=lambda e, exc: e.prove(False, "predict(balanced)/raises", detail=f"{type(exc).__name__}: {exc}"))
    viol = []
    for c in eng.cex[:1]:
        ok, obs = replay_predict_batch(cfg, c.inputs, c.label)
        viol.append(harness.violation(c.label, c.label, cfg, c.inputs, obs, ok))
    return dict(stats=eng.stats.as_dict(), violations=viol)


def replay_predict_batch(cfg, inputs, label):
    """real estimator, real batches around the model's size and at sizes whose parts have remainders"""
    kc = loader.load("mlmodel.kmeans_constraint")
    n0 = int(inputs.get("n", 300))
    sizes = sorted(set([n0, n0 + 1, n0 + 2, 2 * n0 + 1, 300, 515, 520, 600, 1030, 2051]))
    strategy = cfg["strategy"].replace("_p", "")
    tried = 0
    for k in (3, 5, cfg["k"]):
        rng = numpy.random.RandomState(k)
        est = kc.ConstraintKMeans(n_clusters=k, strategy=strategy, random_state=0, balanced_predictions=True).fit(rng.randn(6 * k, 2))
        for n in sizes:
            if strategy == "gain" and n % k:
                continue  # known finding: gain and n mod k >= 2
            B = rng.randn(n, 2)
            tried += 1
            try:
                lab = est.predict(B)
            except Exception as ex:
                return True, dict(batch_rows=n, k=k, raised=f"{type(ex).__name__}: {str(ex)[:160]}")
            if not _sizes_ok(lab, n, k):
                return True, dict(batch_rows=n, k=k, strategy=strategy, sizes=numpy.bincount(lab, minlength=k).tolist(), data=f"RandomState({k}).randn({n},2) after the training draw")
    return False, f"balanced sizes on {tried} real batches"


# ------------------------------------------------------------------ layer 1c: the iteration counter


def run_niter(cfg):
    """n_iter_ <= max_iter through the real ConstraintKMeans.fit -> constraint_kmeans (method) -> constraint_kmeans
    (function, real loop).  KMeans.fit is its contract (n_iter_ = any i0 with 1 <= i0 <= the max_iter it is given);
    association / centres / inertia inside the loop are stubs (arbitrary inertia per iteration: every early stop)."""
    m = loader.load("mlmodel._kmeans_constraint_")
    kc = loader.load("mlmodel.kmeans_constraint")
    n, k = 4, 2

    def h(e):
        mi = e.realize(e.int("max_iter", 1, cfg["max_iter"]))
        est = kc.ConstraintKMeans(n_clusters=k, max_iter=mi, kmeans0=cfg["kmeans0"], strategy=cfg["strategy"], random_state=0)
        X = numpy.zeros((n, 1))
        seen = {}

        def parent_fit(self, Xa, y=None, sample_weight=None):
            seen["parent_max_iter"] = self.max_iter
            i0 = e.int("kmeans_n_iter", 0, None)
            e.assume(i0 <= self.max_iter)  # scikit-learn: n_iter_ <= max_iter (0 only when max_iter is 0)
            e.assume(sx.SymBool(z3.Or(i0.t >= 1, z3.BoolVal(self.max_iter == 0))))
            self.labels_ = numpy.zeros(n, dtype=numpy.int32)
            self.cluster_centers_ = numpy.zeros((k, 1))
            self.inertia_ = 1.0
            self.n_iter_ = i0
            return self

        cnt = [0]

        def inertia_stub(**kw):
            cnt[0] += 1
            v = e.real(f"inertia{cnt[0]}")
            e.add_definition(v.t >= 0)
            return None, v

        quotas = []

        def assoc(leftover, counters, labels, leftclose, dclose, centers, Xa, xsn, limit, strategy, state=None):
            quotas.append((int(leftover), int(limit), len(counters), len(leftclose)))

        stubs = dict(row_norms=lambda *a, **kw: None, _constraint_association=assoc, _centers_dense=lambda X, sw, labels, nc, dc: numpy.zeros((k, 1)), _labels_inertia_skl=inertia_stub)
        with harness.patched(kc.KMeans, fit=parent_fit), harness.patched(m, **stubs):
            est.fit(X)
        # every association of the fit gets the quota of THIS data and k (initial labels -- here all zero, as a
        # KMeans start that left clusters empty, or a random start that missed an index -- must not enter it)
        e.prove(len(quotas) >= 1 and all(q == (n - (n // k) * k, n // k, k, k) for q in quotas), "fit/quota=n//k,leftover=n-k*quota-for-every-association", detail=quotas[:3])
        e.prove(est.max_iter == mi, "n_iter/max_iter-restored")
        e.prove(est.n_iter_ <= mi, "n_iter_<=max_iter", detail=str(est.n_iter_))
        e.prove(est.n_iter_ >= 0, "n_iter_>=0")

    eng = sx.Engine(name=f"C07{cfg}")
    eng.explore(h, on_exception=lambda e, exc: e.prove(False, "n_iter/raises", detail=f"{type(exc).__name__}: {exc}"))
    viol = []
    for c in eng.cex[:1]:
        ok, obs = replay_niter(cfg, c.inputs, c.label)
        viol.append(harness.violation(c.label, c.label, cfg, c.inputs, obs, ok))
    return dict(stats=eng.stats.as_dict(), violations=viol)


def replay_niter(cfg, inputs, label):
    kc = loader.load("mlmodel.kmeans_constraint")
    tried = 0
    if label.startswith("fit/quota"):
        # starts that leave the last cluster index unused: tiny random starts, or fewer distinct points than clusters
        for k in (3, 4):
            for seed in range(40):
                rng = numpy.random.RandomState(seed)
                for X, kmeans0 in ((rng.randn(2 * k, 2), False), (numpy.repeat(rng.randn(2, 2), [5, 3 * k - 5], axis=0), True)):
                    tried += 1
                    try:
                        import warnings

                        with warnings.catch_warnings():
                            warnings.simplefilter("ignore")
                            est = kc.ConstraintKMeans(n_clusters=k, strategy="distance", kmeans0=kmeans0, random_state=seed).fit(X)
                    except Exception as ex:
                        return True, dict(n=len(X), k=k, seed=seed, kmeans0=kmeans0, raised=f"{type(ex).__name__}: {str(ex)[:160]}")
                    if not _sizes_ok(est.labels_, len(X), k):
                        return True, dict(n=len(X), k=k, strategy="distance", kmeans0=kmeans0, seed=seed, sizes=numpy.bincount(est.labels_, minlength=k).tolist(), data="RandomState(seed).randn(2k,2)" if not kmeans0 else "two distinct points repeated")
        return False, f"sizes balanced on {tried} real fits whose start leaves a cluster index unused"
    for mi in sorted(set([int(inputs.get("max_iter", 4))] + list(range(1, 13)))):
        for seed in range(6):
            rng = numpy.random.RandomState(seed)
            X = numpy.vstack([rng.randn(7, 2) + 4 * c for c in range(3)])
            for kmeans0 in (cfg["kmeans0"], not cfg["kmeans0"]):
                if kmeans0 and mi < 2:
                    continue  # max_iter=1 hands KMeans max_iter=0, which scikit-learn refuses (on the unchanged tree too)
                tried += 1
                try:
                    est = kc.ConstraintKMeans(n_clusters=3, max_iter=mi, kmeans0=kmeans0, strategy=cfg["strategy"], random_state=seed).fit(X)
                except Exception as ex:
                    if "The algorithm failed" in str(ex):
                        continue
                    return True, dict(max_iter=mi, seed=seed, raised=f"{type(ex).__name__}: {str(ex)[:160]}")
                if not 0 <= est.n_iter_ <= mi or est.max_iter != mi:
                    return True, dict(max_iter=mi, n_iter_=int(est.n_iter_), max_iter_after=int(est.max_iter), kmeans0=kmeans0, seed=seed, data=f"3 blobs of 7 points, RandomState({seed})")
    return False, f"n_iter_ <= max_iter on {tried} real fits"


# ------------------------------------------------------------------ layer 2a: the processing order


class _Fixed:
    def __init__(self, vals):
        self.vals = vals

    def rand(self, n):
        return numpy.array(self.vals[:n], dtype=float)


def run_rindex(cfg):
    """_randomize_index(sorted_index, mini): whatever the ties and the draws, the processing order stays a
    permutation of the points (the inductive step of `distance` takes an arbitrary order of ALL points)"""
    m = loader.load("mlmodel._kmeans_constraint_")
    n = cfg["n"]

    def h(e):
        w = e.reals("w", n)
        for i in range(n):
            e.add_definition(w[i].t >= 0)
        pi = [e.int(f"idx{i}", 0, n - 1) for i in range(n)]
        e.add_definition(z3.Distinct(*[p.t for p in pi]))
        idx = [e.realize(p) for p in pi]
        for a, b in zip(idx, idx[1:]):
            e.assume(w[a] <= w[b])  # the caller passes argsort(weights)
        index = numpy.array(idx, dtype=numpy.int64)
        rnd = _Rnd(e)
        with harness.patched(m, numpy=_NP(rnd)):
            m._randomize_index(index, w.copy(), state=rnd if cfg["state"] else None)
        e.prove(sorted(int(v) for v in index) == list(range(n)), "processing-order/every-point-exactly-once", detail=[int(v) for v in index])

    eng = sx.Engine(name=f"C07{cfg}")
    eng.abstract_division = True
    eng.explore(h, on_exception=lambda e, exc: e.prove(False, "processing-order/raises", detail=f"{type(exc).__name__}: {exc}"))
    viol = []
    for c in eng.cex[:1]:
        ok, obs = replay_rindex(cfg, c.inputs, c.label)
        viol.append(harness.violation(c.label, c.label, cfg, c.inputs, obs, ok))
    return dict(stats=eng.stats.as_dict(), violations=viol)


def replay_rindex(cfg, inputs, label):
    """(1) the real function on the model's values; (2) the consequence through the public API: data sets with
    duplicated points (exact ties), n mod k != 0, several seeds -- a violation is only reported when (2) shows one"""
    m = loader.load("mlmodel._kmeans_constraint_")
    kc = loader.load("mlmodel.kmeans_constraint")
    n = cfg["n"]
    try:
        w = numpy.array([float(inputs.get(f"w_{i}", 0)) for i in range(n)])
        index = numpy.array([int(inputs.get(f"idx{i}", i)) for i in range(n)], dtype=numpy.int64)
        m._randomize_index(index, w.copy(), state=_Fixed([float(inputs.get(f"rand0_{i}", 0)) for i in range(n)]))
        unit = dict(order_after=index.tolist(), weights=w.tolist())
        if sorted(index.tolist()) == list(range(n)):
            return False, dict(unit="the real function keeps a permutation on the model's values", **unit)
    except Exception as ex:
        unit = dict(raised=f"{type(ex).__name__}: {str(ex)[:160]}")
    tried = 0
    for k in (2, 3, 4):
        for nn in (2 * k + 1, 3 * k + 1, 2 * k + 2, 3 * k + 2):
            if nn % k == 0:
                continue
            for seed in range(30):
                rng = numpy.random.RandomState(seed)
                base = rng.randn((nn + 1) // 2, 2)
                X = numpy.vstack([base, base])[:nn]  # duplicated points: exact distance ties
                assert len(X) == nn
                for bp in (False, True):
                    tried += 1
                    try:
                        est = kc.ConstraintKMeans(n_clusters=k, strategy="distance", random_state=seed, balanced_predictions=bp).fit(X)
                        lab = est.predict(X) if bp else est.labels_
                    except Exception as ex:
                        return True, dict(unit=unit, n=nn, k=k, seed=seed, raised=f"{type(ex).__name__}: {str(ex)[:160]}")
                    if not _sizes_ok(lab, nn, k):
                        return True, dict(unit=unit, n=nn, k=k, seed=seed, balanced_predict=bp, sizes=numpy.bincount(lab, minlength=k).tolist(), data=f"RandomState({seed}).randn({(nn + 1) // 2},2) stacked twice, first {nn} rows")
    return False, dict(unit=unit, api=f"no size violation on {tried} real fits with duplicated points")


# ------------------------------------------------------------------ layer 2: distance, inductive step


def run_distance_step(cfg):
    m = loader.load("mlmodel._kmeans_constraint_")
    k = cfg["k"]
    step, target, lines = slicer.slice_loop_body(
        m._constraint_association_distance, "for ind in sorted_index", ["ind", "labels", "centers_index", "counters", "limit", "nover", "leftclose", "distances", "maxi"], nested_in="while labels.min() == -1"
    )

    def h(e):
        limit = e.int("limit")
        leftover = e.int("leftover")
        e.assume(limit >= 0)
        e.assume(leftover >= 0)
        e.assume(leftover < k)
        cnt = [e.int(f"cnt{c}") for c in range(k)]
        lc = [e.int(f"leftclose{c}", -1, 0) for c in range(k)]
        taken = sx.ssum([sx.sif(lc[c] == 0, 1, 0) for c in range(k)])
        for c in range(k):
            e.assume(cnt[c] >= 0)
            e.assume(cnt[c] <= limit + sx.sif(lc[c] == 0, 1, 0))
            e.assume(sx.SymBool(z3.Implies(lc[c].t == 0, cnt[c].t == limit.t + 1)))  # the extra slot is taken when the cluster is full
        nover = leftover - taken
        e.assume(nover >= 0)
        total = sx.ssum(cnt)
        n = limit * k + leftover
        e.assume(total < n)
        pref = [e.int(f"pref{j}", 0, k - 1) for j in range(k)]
        if k > 1:
            e.add_definition(z3.Distinct(*[p.t for p in pref]))
        counters = sx.sarr(list(cnt))
        leftclose = sx.sarr(list(lc))
        labels = numpy.array([-1], dtype=object)
        distances = numpy.empty((1, k), dtype=object)
        centers_index = sx.sarr([pref])
        out = step(0, labels, centers_index, counters, limit, nover, leftclose, distances, 0)
        lab = labels[0]
        ok = e.prove(sx.SymBool(z3.And(sx.term(lab) >= 0, sx.term(lab) < k)) if sx.is_sym(lab) else (0 <= int(lab) < k), "distance-step/point-gets-a-valid-label")
        if not ok:
            return
        lab = int(lab)
        for c in range(k):
            e.prove_eq(counters[c], cnt[c] + (1 if c == lab else 0), "distance-step/exactly-its-counter-grows")
        nover2 = out["nover"]
        taken2 = sx.ssum([sx.sif(leftclose[c] == 0, 1, 0) for c in range(k)])
        for c in range(k):
            e.prove(sx.SymBool(z3.Or(sx.term(leftclose[c]) == -1, sx.term(leftclose[c]) == 0)), "distance-step/invariant(leftclose in {-1,0})")
            e.prove(counters[c] <= limit + sx.sif(leftclose[c] == 0, 1, 0), "distance-step/invariant(counter<=limit+extra-slot)")
            e.prove(sx.SymBool(z3.Implies(sx.term(leftclose[c]) == 0, sx.term(counters[c]) == limit.t + 1)), "distance-step/invariant(extra-slot=>limit+1)")
        e.prove_eq(nover2, leftover - taken2, "distance-step/invariant(nover)")
        e.prove(nover2 >= 0, "distance-step/invariant(nover>=0)")

    eng = sx.Engine(name=f"C07{cfg}")
    eng.stop_on_cex = False
    eng.explore(h)
    # closing lemma: invariant and all points labelled => sizes in {limit, limit+1}
    def lemma(e):
        limit, leftover = e.int("limit"), e.int("leftover")
        e.assume(limit >= 0)
        e.assume(leftover >= 0)
        e.assume(leftover < k)
        cnt = [e.int(f"cnt{c}") for c in range(k)]
        ex = [e.int(f"extra{c}", 0, 1) for c in range(k)]
        for c in range(k):
            e.assume(cnt[c] >= 0)
            e.assume(cnt[c] <= limit + ex[c])
        e.assume(sx.ssum(ex) <= leftover)
        e.assume(sx.ssum(cnt) == limit * k + leftover)
        for c in range(k):
            e.prove(sx.SymBool(z3.Or(cnt[c].t == limit.t, cnt[c].t == limit.t + 1)), "distance-step/invariant-at-the-end=>sizes")
        # limit+1 == ceil(n/k) only when leftover > 0
        e.prove(sx.SymBool(z3.Implies(leftover.t == 0, z3.And(*[cnt[c].t == limit.t for c in range(k)]))), "distance-step/invariant-at-the-end=>sizes")

    eng2 = sx.Engine(name=f"C07-lemma{cfg}")
    eng2.explore(lemma)
    eng.stats.merge(eng2.stats)
    viol = []
    seen = set()
    for c in eng.cex + eng2.cex:
        if c.label in seen:
            continue
        seen.add(c.label)
        ok, obs = replay(dict(cfg, strategy="distance"), c.inputs, c.label)
        viol.append(harness.violation(c.label, c.label, cfg, c.inputs, obs, ok))
    st = eng.stats.as_dict()
    st["samples"] = st["samples"][:2] + [dict(sliced_statements=lines[:6], loop_variable=target)]
    return dict(stats=st, violations=viol)


# ------------------------------------------------------------------ layer 3: gain, quota lemma


def run_gain_quota(cfg):
    m = loader.load("mlmodel._kmeans_constraint_")
    k = cfg["k"]
    region, lines = slicer.slice_range(m._constraint_association_gain, "leftclose[:] = counters[:] - ave", "transfer = {}", ["counters", "leftclose", "ave", "X", "state"])

    def h(e):
        ave = e.int("ave")
        e.assume(ave >= 0)
        rest = e.int("rest")  # n = ave*k + rest
        e.assume(rest >= 0)
        e.assume(rest < k)
        cnt = [e.int(f"cnt{c}") for c in range(k)]
        for c in range(k):
            e.assume(cnt[c] >= 0)
        n = ave * k + rest
        e.assume(sx.ssum(cnt) == n)
        counters = sx.sarr(list(cnt))
        leftclose = sx.sarr([0] * k)
        rnd = _Rnd(e)
        rnd.max_draws = cfg.get("max_draws")

        class XS:
            shape = (n, 1)

        with harness.patched(m, numpy=_NP(rnd)):
            region(counters, leftclose, ave, XS(), rnd)
        for c in range(k):
            e.prove(leftclose[c] <= 1, "gain-quota/leftclose<=1", detail=c)
            e.prove(leftclose[c] >= 0, "gain-quota/leftclose>=0", detail=c)

    eng = sx.Engine(name=f"C07{cfg}")
    eng.stop_on_cex = False
    eng.explore(h)
    viol = []
    for c in eng.cex:
        ok, obs = replay(dict(cfg, strategy="gain"), c.inputs, c.label)
        viol.append(harness.violation(c.label, c.label, cfg, c.inputs, obs, ok))
    st = eng.stats.as_dict()
    st["samples"] = st["samples"][:2] + [dict(sliced_statements=lines[:8])]
    return dict(stats=st, violations=viol)


# ------------------------------------------------------------------ layer 4: gain main loop, one step


class LazyTransfer(dict):
    """the waiting lists of the gain loop, materialised on demand from symbols under the list
    invariant: an entry (g, j) of list (a, b) is either closed (stale) or still labelled a"""

    def __init__(self, e, labels, closed, n, maxlen):
        super().__init__()
        self.e, self.labels, self.closed, self.n, self.maxlen = e, labels, closed, n, maxlen
        self.materialised = {}

    def _make(self, key):
        key = (int(key[0]), int(key[1]))  # a symbolic cluster id is realised here (fork per value)
        if key in self.materialised:
            return self.materialised[key]
        e = self.e
        L = e.realize(e.int(f"len_{key[0]}_{key[1]}", 0, self.maxlen))
        lst = []
        prev = None
        for t in range(L):
            j = e.realize(e.int(f"ent_{key[0]}_{key[1]}_{t}", 0, self.n - 1))
            g = e.real(f"g_{key[0]}_{key[1]}_{t}")
            if prev is not None:
                e.assume(prev <= g)  # kept sorted by bisect.insort
            prev = g
            # invariant: unmarked entries still belong to cluster key[0]
            e.assume(sx.SymBool(z3.Or(sx.term(self.labels[j]) == key[0], _flag(self.closed[j]) == 1)))
            lst.append((g, j))
        self.materialised[key] = lst
        dict.__setitem__(self, key, lst)
        return lst

    def get(self, key, default=None):
        return self._make(key)

    def __contains__(self, key):
        self._make(key)
        return True

    def __getitem__(self, key):
        return self._make(key)

    def __setitem__(self, key, value):
        key = (int(key[0]), int(key[1]))
        self._make(key)
        self.materialised[key][:] = value


def _flag(v):
    """0/1 term of a marker entry, whether the code stores 1 or True in it"""
    t = sx.term(v)
    if z3.is_bool(t):
        return z3.If(t, z3.IntVal(1), z3.IntVal(0))
    return t


def _gain_moved_marker(func):
    """name of the array whose entry `[ind]` makes the loop of _constraint_association_gain skip a point"""
    import ast

    fd = slicer.function_ast(func)
    for node in ast.walk(fd):
        if isinstance(node, ast.For) and ast.unparse(node).startswith("for i in range(0, sorted_distances.shape[0])"):
            for st in node.body:
                if isinstance(st, ast.If) and len(st.body) == 1 and isinstance(st.body[0], ast.Continue):
                    t = st.test
                    if isinstance(t, ast.Subscript) and isinstance(t.value, ast.Name) and ast.unparse(t.slice) == "ind":
                        return t.value.id
    return "distances_close"


def run_gain_step(cfg):
    m = loader.load("mlmodel._kmeans_constraint_")
    n, k = cfg["n"], cfg["k"]
    # the array that marks a point as already moved is read off the source (the first `if <name>[ind]: continue`
    # of the loop), so that a refactoring which gives the marker its own array is still encoded
    marker = _gain_moved_marker(m._constraint_association_gain)
    gparams = ["i", "sorted_distances", "labels", "distances_close", "counters", "ave", "leftclose", "transfer"]
    if marker != "distances_close":
        gparams.append(marker)
    step, target, lines = slicer.slice_loop_body(m._constraint_association_gain, "for i in range(0, sorted_distances.shape[0])", gparams)

    def h(e):
        # labels are symbolic and realised only when the step looks at them (points are exchangeable:
        # the entry processed is point 0 without loss of generality)
        lab0 = [e.int(f"lab{j}", 0, k - 1) for j in range(n)]
        labels = sx.sarr(list(lab0))
        closed0 = [e.int(f"closed{j}", 0, 1) for j in range(n)]
        closed = sx.sarr(list(closed0))
        cnt0 = [e.int(f"cnt{c}", 0, n) for c in range(k)]
        counters = sx.sarr(list(cnt0))
        for c in range(k):  # counters are the histogram of labels (pre-state invariant)
            e.add_definition(cnt0[c].t == z3.Sum([z3.If(lab0[j].t == c, 1, 0) for j in range(n)]))
        ave = e.int("ave", 0, n)
        leftclose = sx.sarr([e.int(f"leftclose{c}", 0, n) for c in range(k)])
        ind = 0
        dest = e.realize(e.int("dest", 0, k - 1))
        gain = e.real("gain")
        row = sx.sarr([[0, ind, dest, gain]])
        transfer = LazyTransfer(e, labels, closed, n, cfg["maxlen"])
        if marker != "distances_close":
            step(0, row, labels, sx.sarr([0] * n), counters, ave, leftclose, transfer, closed)
        else:
            step(0, row, labels, closed, counters, ave, leftclose, transfer)
        for j in range(n):
            e.prove(sx.SymBool(z3.And(sx.term(labels[j]) >= 0, sx.term(labels[j]) < k)), "gain-step/labels-valid")
        for c in range(k):
            hist = z3.Sum([z3.If(sx.term(labels[j]) == c, 1, 0) for j in range(n)])
            e.prove(sx.SymBool(sx.term(counters[c]) == hist), "gain-step/counters-are-the-histogram-of-labels", detail=c)
        for j in range(n):
            # a point that changed cluster must be closed, or its entries in other waiting lists go stale unmarked
            e.prove(sx.SymBool(z3.Implies(sx.term(labels[j]) != lab0[j].t, _flag(closed[j]) == 1)), "gain-step/moved-point-is-closed", detail=j)
            e.prove(sx.SymBool(z3.Implies(closed0[j].t == 1, _flag(closed[j]) == 1)), "gain-step/closed-flags-are-monotone")
        for key, lst in transfer.materialised.items():
            for g, j in lst:
                e.prove(sx.SymBool(z3.Or(_flag(closed[j]) == 1, sx.term(labels[j]) == key[0])), "gain-step/waiting-list-invariant")

    eng = sx.Engine(name=f"C07{cfg}", max_paths=400000)
    eng.stop_on_cex = False
    eng.explore(h)
    viol = []
    for c in eng.cex:
        ok, obs = replay(dict(cfg, strategy="gain", hard=True), c.inputs, c.label)
        viol.append(harness.violation(c.label, c.label, cfg, c.inputs, obs, ok))
    st = eng.stats.as_dict()
    st["samples"] = st["samples"][:2] + [dict(sliced_statements=lines[:6], loop_variable=target)]
    return dict(stats=st, violations=viol)


# ------------------------------------------------------------------ replay through the public API


def replay(cfg, inputs, label):
    """ConstraintKMeans on real points: searched over data sets realising the shape (n mod k as in
    the counterexample when it names one); sizes, label range, n_iter_, balanced predictions"""
    kc = loader.load("mlmodel.kmeans_constraint")
    k = cfg["k"]
    strategy = cfg.get("strategy", "distance").replace("_p", "")
    shapes = []
    if "n" in cfg:
        shapes.append(cfg["n"])
    if "rest" in inputs or "leftover" in inputs:
        r = int(inputs.get("rest", inputs.get("leftover", 0)))
        a = max(1, min(3, int(inputs.get("ave", inputs.get("limit", 1)))))
        shapes.append(a * k + r)
    for r in range(k):
        shapes.extend([k + r, 2 * k + r, 3 * k + r])
    if cfg.get("hard"):
        # bookkeeping slips of the gain loop show with random initial labels, few iterations, n divisible by k
        for kk in (3, 4, 5, 6):
            for n in (2 * kk, 4 * kk, 6 * kk):
                for seed in range(25):
                    rng = numpy.random.RandomState(seed * 11 + n)
                    X = rng.randn(n, 2)
                    for mi in (1, 3):
                        try:
                            numpy.random.seed(seed)
                            est = kc.ConstraintKMeans(n_clusters=kk, strategy="gain", kmeans0=False, random_state=seed, max_iter=mi).fit(X)
                        except Exception as ex:
                            if "The algorithm failed" in str(ex):
                                continue
                            return True, dict(n=n, k=kk, raised=f"{type(ex).__name__}: {str(ex)[:200]}")
                        if not _sizes_ok(est.labels_, n, kk):
                            return True, dict(n=n, k=kk, strategy="gain", kmeans0=False, max_iter=mi, seed=seed, sizes=numpy.bincount(est.labels_, minlength=kk).tolist(), data=f"RandomState({seed * 11 + n}).randn({n}, 2)")
        return False, "no size violation on the gain sweep (k=3..6, n divisible by k, kmeans0=False)"
    tried = 0
    for n in dict.fromkeys(s for s in shapes if s >= k):
        for seed in range(12):
            rng = numpy.random.RandomState(seed * 7 + n)
            X = numpy.vstack([rng.randn(1, 2) * 6 + rng.randn(max(1, n // k + (1 if i < n % k else 0)), 2) for i in range(k)])[:n]
            if seed % 3 == 0:
                X = numpy.sort(numpy.concatenate([rng.rand(n - n // 2) * 0.3, 10 + 10 * rng.rand(n // 2)]))[:n].reshape(-1, 1)
            if len(X) < n:
                continue
            for kmeans0 in (True, False):
                tried += 1
                try:
                    numpy.random.seed(seed)
                    est = kc.ConstraintKMeans(n_clusters=k, strategy=strategy, kmeans0=kmeans0, random_state=seed, max_iter=4 if not kmeans0 else 20)
                    est.fit(X)
                except Exception as ex:
                    if "The algorithm failed" in str(ex):
                        continue  # a documented assertion of the gain strategy; not the size property
                    return True, dict(n=n, k=k, strategy=strategy, seed=seed, raised=f"{type(ex).__name__}: {str(ex)[:200]}")
                lab = est.labels_
                if not _sizes_ok(lab, n, k):
                    return True, dict(n=n, k=k, strategy=strategy, kmeans0=kmeans0, seed=seed, sizes=numpy.bincount(lab, minlength=k).tolist(), X=X.ravel().round(3).tolist()[:16])
                if est.n_iter_ > est.max_iter:
                    return True, dict(n_iter_=int(est.n_iter_), max_iter=int(est.max_iter))
                try:
                    near = est.predict(X)
                    if cfg.get("kind") == "predict" and not cfg.get("balanced"):
                        ref = numpy.argmin(((X[:, None, :] - est.cluster_centers_[None, :, :]) ** 2).sum(axis=2), axis=1)
                        if not numpy.array_equal(near, ref):
                            return True, dict(n=n, k=k, seed=seed, predict=near.tolist(), nearest_centre=ref.tolist())
                    est.balanced_predictions = True
                    batches = [X]
                    d0 = ((X - est.cluster_centers_[0]) ** 2).sum(axis=1)
                    for c in range(k):
                        dc = ((X - est.cluster_centers_[c]) ** 2).sum(axis=1)
                        for size in (k, k + 1, 2 * k):
                            if size <= n:
                                batches.append(X[numpy.argsort(dc)[:size]])  # a batch crowded around one centre
                    for B in batches:
                        pl = est.predict(B)
                        if not _sizes_ok(pl, len(B), k):
                            return True, dict(n=n, k=k, strategy=strategy + " (balanced predict)", seed=seed, batch=B.round(3).tolist()[:8], sizes=numpy.bincount(pl, minlength=k).tolist())
                except AssertionError:
                    pass
    return False, f"no size violation on {tried} real fits"


def run_config(cfg):
    try:
        return _run_config(cfg)
    except slicer.SliceError as ex:
        # the loop this inductive layer slices no longer has the statement it is located by (a refactoring):
        # the layer is not applicable to this source; the end-to-end layers do not depend on it
        return dict(stats=sx.Stats().as_dict(), violations=[], notes=[f"inductive layer {cfg['kind']} (k={cfg.get('k')}) not applicable to this source: {ex}"])


def _run_config(cfg):
    return dict(e2e=run_e2e, niter=run_niter, predict_batch=run_predict_batch, predict=run_predict, rindex=run_rindex, dstep=run_distance_step, gquota=run_gain_quota, gstep=run_gain_step)[cfg["kind"]](cfg)


def configs(tier):
    out = []
    # end to end: every ordering, tie, draw and initial label vector -- (3,2) is already 18 000 paths for `distance`
    for strategy in ("distance", "gain", "distance_p", "gain_p"):
        out.append(dict(kind="e2e", n=2, k=2, strategy=strategy))
    if tier != "quick":
        for strategy in ("distance", "distance_p"):
            out.append(dict(kind="e2e", n=3, k=2, strategy=strategy))
    for strategy in ("distance", "gain"):
        out.append(dict(kind="predict", n=2, k=2, strategy=strategy, balanced=True))
    out.append(dict(kind="predict", n=3, k=2, strategy="distance", balanced=False))
    for strategy in ("distance_p", "gain_p"):
        out.append(dict(kind="predict_batch", k=3, strategy=strategy, nmax=100000))
    for kmeans0 in (True, False):
        out.append(dict(kind="niter", kmeans0=kmeans0, strategy="gain", max_iter=5 if tier == "quick" else 9))
    for nn in (3, 4) if tier == "quick" else (3, 4, 5):
        out.append(dict(kind="rindex", n=nn, state=True))
    out.append(dict(kind="rindex", n=3, state=False))
    for k in (2, 3) if tier == "quick" else (1, 2, 3, 4):
        out.append(dict(kind="dstep", k=k))
    if tier == "quick":
        out.append(dict(kind="gquota", k=2, max_draws=None))
        out.append(dict(kind="gquota", k=3, max_draws=2))  # the random repair loop makes up to 2k+1 draws: 3^7 sequences
    else:
        out.append(dict(kind="gquota", k=2, max_draws=None))
        out.append(dict(kind="gquota", k=3, max_draws=None))
        out.append(dict(kind="gquota", k=4, max_draws=3))
    out.append(dict(kind="gstep", n=3, k=3, maxlen=1))
    if tier != "quick":
        out.append(dict(kind="gstep", n=4, k=3, maxlen=1))
        out.append(dict(kind="gstep", n=3, k=3, maxlen=2))
    return out


def run(ctx, rep):
    rep.engine = "SX (end to end, tiny) + SX on AST slices of the real functions (inductive steps, all n)"
    rep.add_functions("mlmodel._kmeans_constraint_", ["constraint_predictions", "_constraint_association", "_constraint_association_distance", "_constraint_association_gain", "_switch_clusters", "_randomize_index", "linearize_matrix", "_compute_strategy_coefficient"])
    rep.add_functions("mlmodel.kmeans_constraint", ["ConstraintKMeans.predict", "ConstraintKMeans.fit", "ConstraintKMeans.constraint_kmeans"])
    rep.add_functions("mlmodel._kmeans_constraint_", ["constraint_kmeans"])
    cfgs = configs(ctx.tier)
    rep.bounds = dict(processing_order="_randomize_index: n <= 4 (quick) / 5 (thorough) points, every starting order, tie pattern and draw", end_to_end=sorted(set((c["n"], c["k"]) for c in cfgs if c["kind"] == "e2e")), inductive_steps="k <= 3 (quick) / 4 (thorough); n, limit, counters symbolic and UNBOUNDED", draws="every rand / randint / permutation outcome (symbolic)")
    rep.assumptions = [
        "end-to-end layer: x**2 and a/b on symbolic reals are over-approximated (fresh order-isomorphic squares; quotients with sign/range facts only) so that every query is linear -- sound for proving, counterexamples replayed", "euclidean_distances replaced by an arbitrary non-negative symbolic matrix (over-approximation: the size property must not depend on geometry); counterexamples are replayed with real points through ConstraintKMeans.fit/predict",
        "inductive steps run AST slices of the current source (vf/slicer.py; a marker that no longer matches is an engine error); the invariant of the `distance` loop is stated in this file's docstring",
        "the processing order of points and each point's preference order are arbitrary (symbolic), so the inductive step covers every ordering the argsorts can produce",
        "gain: only the quota lemma (necessary condition) is claimed for all n; the main loop of `gain` is covered end to end for n*k <= 6/9 only",
    ]
    rep.outside = ["strategy 'weights'", "clustering quality / centres finite (scikit-learn's KMeans and _centers_dense)", "gain main loop beyond the tiny shapes"]
    rep.exhaustive = True
    rep.absorb(harness.pmap(MOD, "run_config", cfgs), layer="all")

    def twin(e):
        cnt = [e.int(f"c{i}", 0, 5) for i in range(2)]
        e.assume(sx.ssum(cnt) == 5)
        e.prove(sx.SymBool(z3.And(*[z3.Or(c.t == 2, c.t == 3) for c in cnt])), "twin")

    eng = sx.Engine(name="C07-twin")
    eng.explore(twin)
    rep.vacuity.append(dict(twin="any split of 5 points in 2 clusters is balanced", refuted=bool(eng.cex)))
    if not eng.cex:
        rep.error("vacuity twin was not refuted")
