"""C04 -- predictions are a pure per-row function of the model and survive persistence.

SX, dual-mode scenarios.  For each row-wise predictor/transformer the real dispatch code runs on a
batch of 3 symbolic rows (routing of each row symbolic and realised, fitted coefficients
symbolic, inner models = uninterpreted row-wise functions, so any batch dependence found is
introduced by the mlinsights code) and z3 shows, per row: out(B[pi]) == out(B)[pi] for every
permutation pi, out(single row) == out(B)[row], out(sub-batch) agrees, repeated calls agree.
Covered: PiecewiseRegressor.predict / PiecewiseClassifier.predict_proba (incl. rows in buckets
unseen at training time), DecisionTreeLogisticRegression.predict_proba/decision_path,
KMeansL1L2 predict/transform (L1), ClassifierAfterKMeans, IntervalRegressor predict_all/predict/
predict_sorted, SkBaseTransformLearner.transform, PiecewiseTreeRegressor (mselin leaf regressions),
clone_with_fitted_parameters (equal outputs, no shared fitted arrays, a second clone after the model
was retrained reflects the new state).  Pickle round trips of really fitted estimators are
exercised concretely (no symbols) at the end of the run.
"""
import itertools
import pickle
import types

import numpy
import z3
from sklearn.base import BaseEstimator

from .. import harness, loader, sx

MOD = "vf.props.c04"


def _cell_eq(C, a, b, label, detail=None):
    a, b = numpy.asarray(a, dtype=object), numpy.asarray(b, dtype=object)
    if a.shape != b.shape:
        C.true(False, label + "/shape", detail=(a.shape, b.shape, detail))
        return
    for i in numpy.ndindex(a.shape):
        C.eq(a[i], b[i], label, detail=detail)


def purity(C, f, X, label, subsets=True):
    """f: batch (n x d object array) -> array whose first axis is the rows"""
    n = X.shape[0]
    base = f(X)
    again = f(X)
    _cell_eq(C, again, base, label + "/repeated-call-agrees")
    for perm in itertools.permutations(range(n)):
        if list(perm) == list(range(n)):
            continue
        out = f(X[list(perm)])
        for pos, i in enumerate(perm):
            _cell_eq(C, out[pos], base[i], label + "/permuted-batch", detail=(perm, i))
    for i in range(n):
        out = f(X[i : i + 1])
        _cell_eq(C, out[0], base[i], label + "/single-row", detail=i)
    if subsets and n >= 3:
        idx = [0, 2]
        out = f(X[idx])
        for pos, i in enumerate(idx):
            _cell_eq(C, out[pos], base[i], label + "/sub-batch", detail=i)


def sc_piecewise(cfg):
    from . import c08

    pe = loader.load("mlmodel.piecewise_estimator")
    clf = cfg["classifier"]

    def scenario(C):
        c08.Local.log, c08.Local.C, c08.Local.classifier = [], C, clf
        ntr, nq, nb = 3, 3, 2
        btr = [C.choice(f"btr{i}", nb) for i in range(ntr)]
        bq = [C.choice(f"bq{i}", nb + 1) for i in range(nq)]  # bucket nb is unseen at training time
        Xtr = numpy.empty((ntr, 2), dtype=object)
        Xq = numpy.empty((nq, 2), dtype=object)
        for i in range(ntr):
            Xtr[i, 0] = sx.cur().real(f"x{i}") if C.symbolic else float(C.inputs.get(f"x{i}", i + 0.5))
            Xtr[i, 1] = btr[i]
        for i in range(nq):
            Xq[i, 0] = sx.cur().real(f"q{i}") if C.symbolic else float(C.inputs.get(f"q{i}", i + 10.25))
            Xq[i, 1] = bq[i]
        if clf:
            y = numpy.array([i % 2 for i in range(ntr)])
        else:
            y = sx.cur().reals("y", ntr) if C.symbolic else numpy.array([float(C.inputs.get(f"y_{i}", 3.0 * i)) for i in range(ntr)], dtype=object)
        binner = c08.StubBins(n_bins=nb + 1)
        est = (pe.PiecewiseClassifier if clf else pe.PiecewiseRegressor)(binner=binner, estimator=c08.Local())
        with harness.patched(pe, numpy=c08._NP(c08._Rnd(C)), Parallel=c08.make_parallel(False), delayed=lambda f: (lambda *a, **k: (f, a, k))):
            est.fit(Xtr, y)
            if clf:
                purity(C, est.predict_proba, Xq, "PiecewiseClassifier.predict_proba")
            else:
                purity(C, est.predict, Xq, "PiecewiseRegressor.predict")
            purity(C, est.transform_bins, Xq, "transform_bins", subsets=False)
            # the same rows at the two ends of a 600-row batch (filler rows cycle through the buckets)
            if clf:
                return  # the routing code is shared: the large batch is run with the regressor only
            N = 600
            big = numpy.empty((N, 2), dtype=object)
            for r in range(N):
                big[r, 0], big[r, 1] = float(r % 7), r % (nb + 1)
            big[0], big[N - 1] = Xq[0], Xq[1]
            bins_big = est.transform_bins(big)
            bins_one = [est.transform_bins(Xq[i : i + 1])[0] for i in range(2)]
            _cell_eq(C, bins_big[0], bins_one[0], "transform_bins/row-in-a-600-row-batch==row-alone", detail=0)
            _cell_eq(C, bins_big[N - 1], bins_one[1], "transform_bins/row-in-a-600-row-batch==row-alone", detail=N - 1)
            for r in (1, 255, 256, 257, 511, 512, N - 2):
                _cell_eq(C, bins_big[r], est.transform_bins(big[r : r + 1])[0], "transform_bins/row-in-a-600-row-batch==row-alone", detail=r)

    return scenario


def sc_dtlr(cfg):
    from . import c10

    m = loader.load("mlmodel.decision_tree_logreg")

    def scenario(C):
        c10.NodeClf.C, c10.NodeClf.table, c10.NodeClf.fits, c10.NodeClf.count = C, {}, [], 0
        n = 3
        ys = [C.choice(f"y{i}", 2) for i in range(n)]
        C.assume(len(set(ys)) == 2)
        X = numpy.arange(n, dtype=float).reshape(-1, 1)
        est = m.DecisionTreeLogisticRegression(estimator=c10.NodeClf(), max_depth=2, min_samples_leaf=1, fit_improve_algo="none")
        est.fit(X, numpy.array(ys))
        Xq = numpy.arange(n + 1, dtype=float).reshape(-1, 1)[1:]
        purity(C, est.predict_proba, Xq, "DecisionTreeLogisticRegression.predict_proba")
        purity(C, lambda Xa: numpy.asarray(est.decision_path(Xa).todense()), Xq, "DecisionTreeLogisticRegression.decision_path", subsets=False)

    return scenario


def sc_kml1(cfg):
    from . import c06

    km = loader.load("mlmodel.kmeans_l1")

    def scenario(C):
        est = km.KMeansL1L2(n_clusters=2, norm="L1")
        cen = sx.cur().reals("c", 2, 1) if C.symbolic else numpy.array([[float(C.inputs.get("c_0_0", 0.0))], [float(C.inputs.get("c_1_0", 4.0))]])
        est.cluster_centers_ = cen
        Xq = sx.cur().reals("q", 3, 1) if C.symbolic else numpy.array([[float(C.inputs.get(f"q_{i}_0", 1.0 + 1.5 * i))] for i in range(3)])
        stubs = dict(check_is_fitted=lambda s: None)
        if C.symbolic:
            stubs.update(pairwise_distances_argmin_min=c06.manhattan_argmin_min, manhattan_distances=c06.manhattan_matrix, numpy=sx.TypedNumpy())
            est._check_test_data = lambda Xa: Xa
        else:
            est._n_threads = 1
            est.n_features_in_ = 1
        with harness.patched(km, **stubs):
            purity(C, est.predict, Xq, "KMeansL1L2.predict(L1)")
            purity(C, est.transform, Xq, "KMeansL1L2.transform(L1)")
            # the same rows inside a larger batch (an implementation may treat small and large batches differently)
            filler = numpy.array([[float(i)] for i in range(-4, 6)], dtype=object if C.symbolic else float)
            big = numpy.vstack([Xq[:2], filler])
            if C.symbolic:
                big = big.view(sx.SArr)
            lab_big = est.predict(big)
            for i in range(2):
                one = est.predict(Xq[i : i + 1])
                _cell_eq(C, lab_big[i], one[0], "KMeansL1L2.predict(L1)/row-in-a-12-row-batch==row-alone", detail=i)

    return scenario


def sc_cak(cfg):
    from . import c03

    m = loader.load("mlmodel.classification_kmeans")

    def scenario(C):
        X = sx.cur().reals("X", 3, 1) if C.symbolic else numpy.array([[float(C.inputs.get(f"X_{i}_0", i + 1.0))] for i in range(3)], dtype=object)
        y = numpy.array([0, 1, 0])
        est = m.ClassifierAfterKMeans(estimator=c03.Est(), clus=c03.Clus())
        est.fit(X, y)
        Xq = sx.cur().reals("Q", 3, 1) if C.symbolic else numpy.array([[float(C.inputs.get(f"Q_{i}_0", 2.0 * i - 1))] for i in range(3)], dtype=object)
        purity(C, est.transform_features, Xq, "ClassifierAfterKMeans.transform_features")
        purity(C, est.predict, Xq, "ClassifierAfterKMeans.predict")

    return scenario


class RowFn:
    """member regressor: an uninterpreted row-wise function"""

    def __init__(self, k, C):
        self.k, self.C = k, C

    def predict(self, X):
        out = []
        for r in range(len(X)):
            x = X[r, 0]
            if self.C.symbolic:
                F = z3.Function(f"M{self.k}", z3.RealSort(), z3.RealSort())
                out.append(sx.SymReal(F(sx._real(sx.term(x)))))
            else:
                out.append(float(x) * (self.k + 2) - self.k)
        return sx.sarr(out) if self.C.symbolic else numpy.array(out)


def sc_interval(cfg):
    from . import c17

    ir = loader.load("mlmodel.interval_regressor")

    def scenario(C):
        est = ir.IntervalRegressor(estimator=c17.RecEst(), n_estimators=2)
        est.estimators_ = [RowFn(k, C) for k in range(2)]
        Xq = sx.cur().reals("q", 3, 1) if C.symbolic else numpy.array([[float(C.inputs.get(f"q_{i}_0", 1.0 + i))] for i in range(3)])
        stubs = dict(numpy=c17._AggNP()) if C.symbolic else {}
        with harness.patched(ir, **stubs):
            purity(C, est.predict_all, Xq, "IntervalRegressor.predict_all")
            purity(C, est.predict, Xq, "IntervalRegressor.predict")
            purity(C, est.predict_sorted, Xq, "IntervalRegressor.predict_sorted")

    return scenario


def sc_learner(cfg):
    from . import c15

    L = loader.load("sklapi.sklearn_base_transform_learner").SkBaseTransformLearner
    sk = loader.load("mlmodel.sklearn_testing")

    def scenario(C):
        a = C.int("a")
        model = c15.FitXYW(a)
        X, y, w = c15._data(C, 2, "t")
        model.fit(X, y)
        est = L(model, c15.METHODS[cfg["method"]])
        Xq = sx.cur().reals("Q", 3, 1) if C.symbolic else numpy.array([[float(C.inputs.get(f"Q_{i}_0", i + 0.5))] for i in range(3)], dtype=object)
        purity(C, est.transform, Xq, "SkBaseTransformLearner.transform")
        # clone_with_fitted_parameters: same outputs, independent fitted state, a second clone follows a retrain
        k1 = sk.clone_with_fitted_parameters(model)
        C.true(k1 is not model, "clone_with_fitted_parameters/distinct-object")
        _cell_eq(C, k1.predict(Xq), model.predict(Xq), "clone_with_fitted_parameters/identical-outputs")
        X2, y2, _ = c15._data(C, 2, "u")
        model.fit(X2, y2)
        _cell_eq(C, k1.predict(Xq), numpy.array(c15.ref("predict", c15.trained(a, X, y, None), Xq), dtype=object).ravel(), "clone_with_fitted_parameters/clone-does-not-follow-the-original", detail="first clone keeps the first state")
        k2 = sk.clone_with_fitted_parameters(model)
        _cell_eq(C, k2.predict(Xq), model.predict(Xq), "clone_with_fitted_parameters/second-clone-after-retrain-has-the-new-state")

    return scenario


def sc_transfer(cfg):
    """a frozen TransferTransformer (copy_estimator=True, trainable=False) owns its fitted state: what its
    owner later does to the estimator object it was built from does not change its outputs"""
    from . import c15

    TT = loader.load("mlmodel.transfer_transformer").TransferTransformer
    sk = loader.load("mlmodel.sklearn_testing")

    def scenario(C):
        a = C.int("a")
        model = c15.FitXYW(a)
        X, y, w = c15._data(C, 2, "t")
        model.fit(X, y)
        est = TT(model, method=c15.METHODS[cfg["method"]], copy_estimator=True, trainable=False).fit(X, y)
        Xq = sx.cur().reals("Q", 3, 1) if C.symbolic else numpy.array([[float(C.inputs.get(f"Q_{i}_0", i + 0.5))] for i in range(3)], dtype=object)
        purity(C, est.transform, Xq, "TransferTransformer.transform", subsets=False)
        out0 = est.transform(Xq)
        k1 = sk.clone_with_fitted_parameters(est)
        X2, y2, _ = c15._data(C, 2, "u")
        model.fit(X2, y2)  # the owner reuses the source estimator
        _cell_eq(C, est.transform(Xq), out0, "TransferTransformer(frozen-copy)/outputs-do-not-follow-the-source-estimator")
        _cell_eq(C, k1.transform(Xq), out0, "TransferTransformer(frozen-copy)/clone_with_fitted_parameters-copy-agrees")

    return scenario


def sc_ckm_weights(cfg):
    """a ConstraintKMeans holding learned cluster weights (strategy='weights'): transform / score of its
    clone_with_fitted_parameters copy and of its pickle copy use the same weights (symbolic), row by row"""
    kc = loader.load("mlmodel.kmeans_constraint")
    sk = loader.load("mlmodel.sklearn_testing")

    def scenario(C):
        k, n = 2, 3
        if C.symbolic:
            e = sx.cur()
            w = e.reals("w", k)
            D = e.reals("d", n, k)
        else:
            w = numpy.array([float(C.inputs.get(f"w_{j}", 1 + j)) for j in range(k)], dtype=object)
            D = numpy.array([[float(C.inputs.get(f"d_{i}_{j}", 1 + i + 2 * j)) for j in range(k)] for i in range(n)], dtype=object)
        for v in list(w) + list(D.ravel()):
            C.assume(v > 0)
        est = kc.ConstraintKMeans(n_clusters=k, strategy="weights", random_state=0)
        # fitted state, as fit leaves it
        est.cluster_centers_ = numpy.array([[0.0], [1.0]])
        est.labels_ = numpy.array([0, 1, 1])
        est.inertia_, est.n_iter_, est.cluster_centers_iter_ = 1.0, 2, None
        est.weights_ = w
        Xq = numpy.zeros((n, 1))

        class KM(kc.KMeans):  # KMeans.transform / euclidean_distances of the real class: the distances of these rows
            def transform(self, X):
                return D.copy()[: len(X)]

        with harness.patched(kc, KMeans=KM, euclidean_distances=lambda a, b, squared=False: D.copy()):
            want_t, want_s = est.transform(Xq), est.score(Xq)
            for i in range(n):
                for j in range(k):
                    C.eq(want_t[i, j], D[i, j] * w[j], "ConstraintKMeans(weights)/transform=distance*cluster-weight")
            kcopy = sk.clone_with_fitted_parameters(est)
            C.true(kcopy is not est, "clone_with_fitted_parameters/distinct-object")
            got_t, got_s = kcopy.transform(Xq), kcopy.score(Xq)
            _cell_eq(C, got_t, want_t, "clone_with_fitted_parameters/identical-outputs(ConstraintKMeans.transform,weights)")
            _cell_eq(C, got_s, want_s, "clone_with_fitted_parameters/identical-outputs(ConstraintKMeans.score,weights)")

    return scenario


def sc_ptr(cfg):
    from . import c09

    def scenario(C):
        inner = c09.run_py(dict(n=3, leaves=2))
        inner(C)  # its own obligations (leaf regressions, predict = [row,1].beta(leaf))

    return scenario


def sc_pickle(cfg):
    """concrete: really fitted estimators survive pickle with identical outputs"""

    def scenario(C):
        loader.install(with_ext=True)
        rng = numpy.random.RandomState(0)
        X = rng.randn(40, 2)
        y = X[:, 0] * 2 - X[:, 1] + rng.randn(40) * 0.1
        yc = (y > 0).astype(int)
        from sklearn.linear_model import LinearRegression, LogisticRegression

        models = []
        pe = loader.load("mlmodel.piecewise_estimator")
        models.append(("PiecewiseRegressor", pe.PiecewiseRegressor("bins").fit(X, y), "predict"))
        models.append(("PiecewiseClassifier", pe.PiecewiseClassifier("bins", random_state=0).fit(X, yc), "predict_proba"))
        models.append(("DecisionTreeLogisticRegression", loader.load("mlmodel.decision_tree_logreg").DecisionTreeLogisticRegression(max_depth=3).fit(X, yc), "predict_proba"))
        models.append(("KMeansL1L2(L1)", loader.load("mlmodel.kmeans_l1").KMeansL1L2(n_clusters=3, norm="L1", random_state=0, n_init=2).fit(X), "transform"))
        ptr = loader.load("mlmodel.piecewise_tree_regression", with_ext=True)
        for crit in ("mselin", "simple"):
            models.append((f"PiecewiseTreeRegressor({crit})", ptr.PiecewiseTreeRegressor(criterion=crit, max_depth=2, min_samples_leaf=6).fit(X, y), "predict"))
        models.append(("IntervalRegressor", loader.load("mlmodel.interval_regressor").IntervalRegressor(LinearRegression(), n_estimators=3).fit(X, y), "predict_sorted"))
        models.append(("ConstraintKMeans", loader.load("mlmodel.kmeans_constraint").ConstraintKMeans(n_clusters=2, random_state=0).fit(X), "predict"))
        for name, m, meth in models:
            try:
                m2 = pickle.loads(pickle.dumps(m))
                a, b = getattr(m, meth)(X), getattr(m2, meth)(X)
                C.true(numpy.array_equal(a, b), "pickle-roundtrip/identical-outputs", detail=name)
            except Exception as ex:
                C.true(False, "pickle-roundtrip/identical-outputs", detail=f"{name}: {type(ex).__name__}: {str(ex)[:120]}")

    return scenario


SCEN = dict(ckm_weights=sc_ckm_weights, transfer=sc_transfer, piecewise=sc_piecewise, dtlr=sc_dtlr, kml1=sc_kml1, cak=sc_cak, interval=sc_interval, learner=sc_learner, ptr=sc_ptr, pickle=sc_pickle)


def run_config(cfg):
    return harness.run_scenario(SCEN[cfg["kind"]](cfg), f"C04{cfg}", cfg=cfg, sig=lambda l: l, on_exception_label="raises")


def replay(cfg, inputs, label):
    return harness.replay_scenario(SCEN[cfg["kind"]](cfg), inputs, label, "raises")


def configs(tier):
    out = [dict(kind="piecewise", classifier=False), dict(kind="piecewise", classifier=True), dict(kind="dtlr"), dict(kind="kml1"), dict(kind="cak"), dict(kind="interval"), dict(kind="ptr"), dict(kind="pickle")]
    for m in range(4):
        out.append(dict(kind="learner", method=m))
    for m in (0, 2):
        out.append(dict(kind="transfer", method=m))
    out.append(dict(kind="ckm_weights"))
    return out


def run(ctx, rep):
    loader.install(with_ext=True)
    rep.add_functions("mlmodel.piecewise_estimator", ["PiecewiseEstimator._apply_predict_method", "PiecewiseEstimator.transform_bins", "_predict_piecewise_estimator", "_predict_proba_piecewise_estimator"])
    rep.add_functions("mlmodel.decision_tree_logreg", ["_DecisionTreeLogisticRegressionNode.predict_proba", "_DecisionTreeLogisticRegressionNode.decision_path"])
    rep.add_functions("mlmodel.kmeans_l1", ["KMeansL1L2._predict_l1", "KMeansL1L2._transform_l1"])
    rep.add_functions("mlmodel.classification_kmeans", ["ClassifierAfterKMeans.transform_features", "ClassifierAfterKMeans.predict"])
    rep.add_functions("mlmodel.interval_regressor", ["IntervalRegressor.predict_all", "IntervalRegressor.predict", "IntervalRegressor.predict_sorted"])
    rep.add_functions("sklapi.sklearn_base_transform_learner", ["SkBaseTransformLearner.transform"])
    rep.add_functions("mlmodel.sklearn_testing", ["clone_with_fitted_parameters"])
    rep.add_functions("mlmodel.kmeans_constraint", ["ConstraintKMeans.__init__", "ConstraintKMeans.transform", "ConstraintKMeans.score"])
    rep.add_functions("mlmodel.transfer_transformer", ["TransferTransformer.fit", "TransferTransformer.transform"])
    rep.add_functions("mlmodel.piecewise_tree_regression", ["PiecewiseTreeRegressor.predict_leaves", "PiecewiseTreeRegressor._predict_reglin"])
    cfgs = configs(ctx.tier)
    rep.bounds = dict(batch="3 symbolic rows: all 6 orders, every single row, one 2-row sub-batch, the call repeated", routing="every assignment of the rows to buckets / sides (incl. a bucket unseen at training time)")
    rep.assumptions = [
        "inner models are uninterpreted row-wise functions (stubs of C08/C10/C15/C17 reused): a batch dependence can only come from the mlinsights dispatch code",
        "scikit-learn's Manhattan distance functions: SX model validated in C06",
        "pickle round trips: concrete runs on really fitted estimators (no symbols; C-level pickling cannot be encoded)",
    ]
    rep.outside = ["balanced_predictions of ConstraintKMeans (batch dependent by design)", "batches of more than 3 rows"]
    rep.absorb(harness.pmap(MOD, "run_config", cfgs), layer="scenarios")

    def twin(e):
        F = z3.Function("F", z3.RealSort(), z3.RealSort())
        a, b = e.real("a"), e.real("b")
        e.prove_eq(sx.SymReal(F(a.t)) + b * 0, sx.SymReal(F(a.t)) + b, "twin")

    eng = sx.Engine(name="C04-twin")
    eng.explore(twin)
    rep.vacuity.append(dict(twin="adding another row's value never changes a row's output", refuted=bool(eng.cex)))
    if not eng.cex:
        rep.error("vacuity twin was not refuted")
