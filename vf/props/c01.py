"""C01 -- parameter protocol: get_params / set_params / clone round trip.

SX over the hand-written protocol code (SkLearnParameters, SkBase, SkBaseTransformLearner,
SkBaseTransformStacking, ClassifierAfterKMeans, ApproximateNMFPredictor) with the real
``sklearn.base.clone``.  Parameter VALUES are symbolic ints (initial configuration and the
value being set), the KEY being set is a symbolic index into sorted(get_params(deep=True))
(realised: every advertised key is tried), the method option and the number of stacked models
(up to 13: two-digit indices are inside the bound on purpose) are enumerated.  Inner models
are parameter-holding BaseEstimator look-alikes whose predict/transform/... are polynomial
in their parameters, so "behaves identically" is a term equality decided by z3 without training.
Every scenario is replayed in concrete mode (same code, concrete ints) on the real library.
"""
import numpy
from sklearn.base import BaseEstimator, clone

from .. import harness, loader, sx

MOD = "vf.props.c01"
X = numpy.array([[1], [2]])
METHODS = ["predict", "predict_proba", "decision_function", "transform"]


class Sub(BaseEstimator):
    def __init__(self, c=0):
        self.c = c


class InnerNT(BaseEstimator):
    """no transform method: SkBaseTransformStacking wraps it in a SkBaseTransformLearner"""

    def __init__(self, a=1, b=2, sub=None):
        self.a = a
        self.b = b
        self.sub = sub

    def fit(self, X, y=None, **kw):
        self.fitted_ = True
        return self

    def predict(self, X):
        return X[:, 0] * self.a + self.b

    def predict_proba(self, X):
        return numpy.column_stack([X[:, 0] * self.a, X[:, 0] + self.b])

    def decision_function(self, X):
        return X[:, 0] * self.a - self.b


class Inner(InnerNT):
    def transform(self, X):
        return numpy.column_stack([X[:, 0] * self.a + self.b, X[:, 0] * 0 + self.a])


def ref(method, a, b):
    """what transform must return for a model with parameters (a, b): 2-D, cell list"""
    x = X[:, 0]
    if callable(method):
        return [[x[i] * a * 3 + b] for i in range(2)]
    if method == "predict":
        return [[x[i] * a + b] for i in range(2)]
    if method == "predict_proba":
        return [[x[i] * a, x[i] + b] for i in range(2)]
    if method == "decision_function":
        return [[x[i] * a - b] for i in range(2)]
    return [[x[i] * a + b, a] for i in range(2)]


def _cells(C, got, want, label):
    got = numpy.asarray(got, dtype=object)
    if got.ndim != 2 or got.shape != (len(want), len(want[0])):
        C.true(False, label + "/shape", detail=f"{got.shape}")
        return
    for i in range(len(want)):
        for j in range(len(want[0])):
            C.eq(got[i, j], want[i][j], label)


def _same_params(C, got, want, label):
    C.true(sorted(got) == sorted(want), label + "/keys", detail=f"{sorted(got)} vs {sorted(want)}")
    for k in want:
        if k not in got:
            continue
        g, w = got[k], want[k]
        if sx.is_sym(g) or sx.is_sym(w) or isinstance(w, (int, str, type(None))) and not isinstance(g, BaseEstimator):
            C.eq(g, w, label, detail=k)
        elif isinstance(w, list):
            C.true(isinstance(g, list) and len(g) == len(w) and all(a is b for a, b in zip(g, w)), label, detail=k)
        else:
            C.true(g is w, label, detail=k)


# ------------------------------------------------------------------ SkBaseTransformLearner


def sc_learner(cfg):
    L = loader.load("sklapi.sklearn_base_transform_learner").SkBaseTransformLearner

    def fn(X):  # a callable method option
        return X[:, 0] * fn.model.a * 3 + fn.model.b

    def scenario(C):
        a0, b0, c0 = C.int("a0"), C.int("b0"), C.int("c0")
        m0 = METHODS[cfg["method"]] if cfg["method"] < 4 else fn
        model = Inner(a0, b0, Sub(c0))
        fn.model = model
        est = L(model, m0)
        before = est.get_params(deep=True)
        want = {"model": model, "method": m0, "model__a": a0, "model__b": b0, "model__sub": model.sub, "model__sub__c": c0}
        _same_params(C, before, want, "get_params(deep=True)")
        shallow = est.get_params(deep=False)
        _same_params(C, shallow, {"model": model, "method": m0}, "get_params(deep=False)")
        _cells(C, est.transform(X), ref(m0, a0, b0), "transform==chosen-method")
        keys = sorted(want)
        k = keys[C.choice("key", len(keys))]
        expected = dict(want)
        cur = dict(a=a0, b=b0, method=m0)
        if k == "model":
            a1, b1, c1 = C.int("a1"), C.int("b1"), C.int("c1")
            new = Inner(a1, b1, Sub(c1))
            if callable(m0):
                fn.model = new
            val = new
            expected.update({"model": new, "model__a": a1, "model__b": b1, "model__sub": new.sub, "model__sub__c": c1})
            cur.update(a=a1, b=b1)
        elif k == "model__sub":
            c1 = C.int("c1")
            val = Sub(c1)
            expected.update({"model__sub": val, "model__sub__c": c1})
        elif k == "method":
            val = METHODS[C.choice("method2", 4)]
            expected["method"] = val
            cur["method"] = val
        else:
            val = C.int("v")
            expected[k] = val
            if k == "model__a":
                cur["a"] = val
            if k == "model__b":
                cur["b"] = val
        ret = est.set_params(**{k: val})
        C.true(ret is est, "set_params-returns-self")
        _same_params(C, est.get_params(deep=True), expected, "set_params-changes-exactly-the-given-key", )
        _cells(C, est.transform(X), ref(cur["method"], cur["a"], cur["b"]), "behaviour-follows-parameters-after-set_params")

    return scenario


def sc_learner_roundtrip(cfg):
    L = loader.load("sklapi.sklearn_base_transform_learner").SkBaseTransformLearner

    def scenario(C):
        a0, b0, c0, a1, b1, c1 = [C.int(n) for n in ("a0", "b0", "c0", "a1", "b1", "c1")]
        ma, mb = METHODS[cfg["method"] % 4], METHODS[cfg["method2"]]
        A = L(Inner(a0, b0, Sub(c0)), ma)
        if cfg.get("fit_first"):
            A.fit(X)
        B = L(Inner(a1, b1, Sub(c1)), mb)
        ret = A.set_params(**B.get_params(deep=True))
        C.true(ret is A, "set_params-returns-self")
        _same_params(C, A.get_params(deep=True), B.get_params(deep=True), "roundtrip/same-parameters")
        _cells(C, A.transform(X), ref(mb, a1, b1), "roundtrip/behaves-identically")
        # clone
        K = clone(B)
        pk, pb = K.get_params(deep=True), B.get_params(deep=True)
        C.true(K is not B and K.model is not B.model and K.model.sub is not B.model.sub, "clone/distinct-objects")
        C.true(not hasattr(K.model, "fitted_"), "clone/unfitted")
        for key in ("method", "model__a", "model__b", "model__sub__c"):
            C.eq(pk.get(key), pb.get(key), "clone/equal-parameters", detail=key)
        C.true(sorted(pk) == sorted(pb), "clone/equal-parameters/keys")
        _cells(C, K.transform(X), ref(mb, a1, b1), "clone/behaves-identically")

    return scenario


# ------------------------------------------------------------------ SkBaseTransformStacking


def sc_stacking(cfg):
    S = loader.load("sklapi.sklearn_base_transform_stacking").SkBaseTransformStacking
    N = cfg["N"]
    wrap = cfg["wrap"]  # True: models without transform (wrapped in learners); False: transformers kept as is

    def scenario(C):
        vals = [(C.int(f"a{i}"), C.int(f"b{i}")) for i in range(N)]
        cls = InnerNT if wrap else Inner
        models = [cls(a, b) for a, b in vals]
        meth = METHODS[cfg["method"]] if wrap else None
        est = S(models, meth) if wrap else S(models)
        before = est.get_params(deep=True)
        want = {"models": est.models, "method": est.method}
        eff = meth if wrap else "transform"
        for i in range(N):
            if wrap:
                want[f"models_{i}__model"] = models[i]
                want[f"models_{i}__method"] = meth
                want[f"models_{i}__model__a"] = vals[i][0]
                want[f"models_{i}__model__b"] = vals[i][1]
                want[f"models_{i}__model__sub"] = None
            else:
                want[f"models_{i}__a"] = vals[i][0]
                want[f"models_{i}__b"] = vals[i][1]
                want[f"models_{i}__sub"] = None
        _same_params(C, before, want, "get_params(deep=True)")

        def expected_cells(vv):
            rows = [[], []]
            for a, b in vv:
                r = ref(eff, a, b)
                for i in range(2):
                    rows[i].extend(r[i])
            return rows

        _cells(C, est.transform(X), expected_cells(vals), "transform==column-concatenation")
        scalar = sorted(k for k in want if k.endswith(("__a", "__b")))
        k = scalar[C.choice("key", len(scalar))]
        v = C.int("v")
        idx = int(k.split("__")[0].split("_")[1])
        expected = dict(want)
        expected[k] = v
        newvals = list(vals)
        newvals[idx] = (v, vals[idx][1]) if k.endswith("__a") else (vals[idx][0], v)
        ret = est.set_params(**{k: v})
        C.true(ret is est, "set_params-returns-self")
        _same_params(C, est.get_params(deep=True), expected, "set_params-changes-exactly-the-given-key")
        _cells(C, est.transform(X), expected_cells(newvals), "behaviour-follows-parameters-after-set_params")
        # round trip into a differently configured instance of the same structure + clone
        other = S([cls(C.int(f"oa{i}"), C.int(f"ob{i}")) for i in range(N)], meth) if wrap else S([cls(C.int(f"oa{i}"), C.int(f"ob{i}")) for i in range(N)])
        ret = other.set_params(**est.get_params(deep=True))
        C.true(ret is other, "set_params-returns-self")
        _same_params(C, other.get_params(deep=True), est.get_params(deep=True), "roundtrip/same-parameters")
        _cells(C, other.transform(X), expected_cells(newvals), "roundtrip/behaves-identically")
        K = clone(est)
        C.true(K is not est and all(m is not n for m, n in zip(K.models, est.models)) and len(K.models) == N, "clone/distinct-objects")
        pk, pe = K.get_params(deep=True), est.get_params(deep=True)
        C.true(sorted(pk) == sorted(pe), "clone/equal-parameters/keys")
        for key in scalar:
            C.eq(pk.get(key), pe.get(key), "clone/equal-parameters", detail=key)
        _cells(C, K.transform(X), expected_cells(newvals), "clone/behaves-identically")

    return scenario


# ------------------------------------------------------------------ SkBase (generic parameter holder)


def sc_skbase(cfg):
    SkBaseLearner = loader.load("sklapi.sklearn_base_learner").SkBaseLearner

    def scenario(C):
        p, q = C.int("p"), C.int("q")
        est = SkBaseLearner(alpha=p, beta=q)
        _same_params(C, est.get_params(deep=True), {"alpha": p, "beta": q}, "get_params(deep=True)")
        k = ["alpha", "beta"][C.choice("key", 2)]
        v = C.int("v")
        ret = est.set_params(**{k: v})
        C.true(ret is est, "set_params-returns-self")
        exp = {"alpha": p, "beta": q}
        exp[k] = v
        _same_params(C, est.get_params(deep=True), exp, "set_params-changes-exactly-the-given-key")
        other = SkBaseLearner(alpha=C.int("p2"), beta=C.int("q2"))
        other.set_params(**est.get_params(deep=True))
        _same_params(C, other.get_params(deep=True), exp, "roundtrip/same-parameters")
        K = clone(est)
        C.true(K is not est, "clone/distinct-objects")
        _same_params(C, K.get_params(), exp, "clone/equal-parameters")
        # SkBase holds whatever keywords it is given: a target built with FEWER keywords takes the others from the
        # source's get_params (same protocol call), and a single new key is reported afterwards
        small = SkBaseLearner(alpha=C.int("p3"))
        r2 = small.set_params(**est.get_params(deep=True))
        C.true(r2 is small, "set_params-returns-self")
        _same_params(C, small.get_params(deep=True), exp, "roundtrip/same-parameters(target-built-with-fewer-keywords)")
        _same_params(C, clone(small).get_params(), exp, "clone/equal-parameters(after-set_params-with-new-keys)")
        g = C.int("g")
        one = SkBaseLearner(alpha=p)
        one.set_params(gamma=g)
        _same_params(C, one.get_params(deep=True), {"alpha": p, "gamma": g}, "set_params-changes-exactly-the-given-key(new-key)")

    return scenario


# ------------------------------------------------------------------ ClassifierAfterKMeans


def sc_cak(cfg):
    CAK = loader.load("mlmodel.classification_kmeans").ClassifierAfterKMeans

    def scenario(C):
        a0, b0, a1, b1 = [C.int(n) for n in ("a0", "b0", "a1", "b1")]
        e_, c_ = InnerNT(a0, b0), Inner(a1, b1)
        est = CAK(estimator=e_, clus=c_)
        want = {"e_a": a0, "e_b": b0, "e_sub": None, "c_a": a1, "c_b": b1, "c_sub": None}
        _same_params(C, est.get_params(deep=True), want, "get_params(deep=True)")
        keys = sorted(k for k in want if not k.endswith("sub"))
        k = keys[C.choice("key", len(keys))]
        v = C.int("v")
        ret = est.set_params(**{k: v})
        C.true(ret is est, "set_params-returns-self")
        exp = dict(want)
        exp[k] = v
        _same_params(C, est.get_params(deep=True), exp, "set_params-changes-exactly-the-given-key")
        other = CAK(estimator=InnerNT(C.int("oa"), C.int("ob")), clus=Inner(C.int("oc"), C.int("od")))
        other.set_params(**est.get_params(deep=True))
        _same_params(C, other.get_params(deep=True), exp, "roundtrip/same-parameters")

    return scenario


def sc_cak_clone(cfg):
    """clone with the estimators scikit-learn users actually pass (no symbol involved: a history)"""
    CAK = loader.load("mlmodel.classification_kmeans").ClassifierAfterKMeans
    from sklearn.cluster import KMeans
    from sklearn.linear_model import LogisticRegression
    from sklearn.tree import DecisionTreeClassifier

    def scenario(C):
        depth = 2 + C.choice("depth", 3)
        nclus = 2 + C.choice("nclus", 3)
        inner = [LogisticRegression(max_iter=50 + depth), DecisionTreeClassifier(max_depth=depth)][cfg["estimator"]]
        est = CAK(estimator=inner, clus=KMeans(n_clusters=nclus))
        K = clone(est)
        C.true(K is not est and K.estimator is not est.estimator and K.clus is not est.clus, "clone/distinct-objects")
        C.true(type(K.estimator) is type(est.estimator), "clone/equal-parameters", detail="estimator class")
        pk, pe = K.get_params(deep=True), est.get_params(deep=True)
        C.true(sorted(pk) == sorted(pe), "clone/equal-parameters/keys")
        for key in pe:
            if key in pk and not hasattr(pe[key], "get_params"):
                C.eq(pk[key], pe[key], "clone/equal-parameters", detail=key)

    return scenario


# ------------------------------------------------------------------ ApproximateNMFPredictor


def sc_anmf(cfg):
    A = loader.load("mlmodel.anmf_predictor").ApproximateNMFPredictor

    def scenario(C):
        n0, n1, it0 = C.int("n0", 1, 5), C.int("n1", 1, 5), C.int("it0", 1, 500)
        kw = dict(n_components=n0, max_iter=it0, force_positive=bool(cfg["fp"]))
        if cfg["other"] == 0:
            kw["random_state"] = None  # an explicitly configured None is a parameter like any other
        a = A(**kw)
        pa = a.get_params(deep=True)
        _same_params(C, pa, kw, "get_params-reports-the-configuration")
        keys = sorted(pa)
        k = keys[C.choice("key", len(keys))]
        v = C.int("v", 1, 9)
        ret = a.set_params(**{k: v})
        C.true(ret is a, "set_params-returns-self")
        exp = dict(kw)
        exp[k] = v
        _same_params(C, a.get_params(deep=True), exp, "set_params-changes-exactly-the-given-key")
        if cfg["other"] == 0:
            a.set_params(random_state=None)
            exp["random_state"] = None
            _same_params(C, a.get_params(deep=True), exp, "set_params-changes-exactly-the-given-key", )
        K = clone(a)
        C.true(K is not a, "clone/distinct-objects")
        _same_params(C, K.get_params(deep=True), exp, "clone/equal-parameters")
        # round trip between two instances built with the same keyword set but other values
        kw2 = dict(kw)
        kw2.update(n_components=n1, force_positive=not cfg["fp"])
        b = A(**kw2)
        b.set_params(**a.get_params(deep=True))
        _same_params(C, b.get_params(deep=True), exp, "roundtrip/same-parameters")
        if cfg["other"] == 2:
            # ... and into an instance built with another keyword set (listed known finding)
            b2 = A(n_components=n1)
            b2.set_params(**a.get_params(deep=True))
            _same_params(C, b2.get_params(deep=True), exp, "roundtrip/same-parameters/other-keyword-set")

    return scenario


def sc_defaults(cfg):
    """estimators that build default sub-estimators in __init__: every instance owns its own; a nested
    set_params on one instance changes nothing on another (before or after it was built)"""
    pe = loader.load("mlmodel.piecewise_estimator")
    cak = loader.load("mlmodel.classification_kmeans")

    def scenario(C):
        depth = 2 + C.choice("depth", 3)
        for cls, key, val in ((pe.PiecewiseRegressor, "binner__max_depth", depth), (pe.PiecewiseClassifier, "binner__max_depth", depth), (cak.ClassifierAfterKMeans, "c_n_clusters", depth + 1)):
            a, b = cls(), cls()
            before = b.get_params(deep=True)
            pa = a.get_params(deep=True)
            subs_a = [v for v in pa.values() if hasattr(v, "get_params")] + [getattr(a, n) for n in ("estimator", "clus", "binner") if hasattr(a, n)]
            subs_b = [v for v in before.values() if hasattr(v, "get_params")] + [getattr(b, n) for n in ("estimator", "clus", "binner") if hasattr(b, n)]
            C.true(not any(x is y for x in subs_a for y in subs_b), "defaults/instances-do-not-share-their-default-sub-estimators", detail=cls.__name__)
            a.set_params(**{key: val})
            C.eq(a.get_params(deep=True)[key], val, "defaults/set_params-changes-the-given-key", detail=cls.__name__)
            after = b.get_params(deep=True)
            C.true(all(after[k] == before[k] or after[k] is before[k] for k in before if not hasattr(before[k], "get_params")), "defaults/set_params-on-one-instance-leaves-the-others-unchanged", detail=cls.__name__)
            c = cls()
            C.true(c.get_params(deep=True)[key] == before[key], "defaults/a-later-instance-has-the-documented-defaults", detail=(cls.__name__, key))

    return scenario


def sc_roundtrip_behaviour(cfg):
    """scikit-learn style estimators of the library: after b.set_params(**a.get_params(deep=True)) the second
    object BEHAVES like the first -- which code path it takes (KMeansL1L2 norm), how it builds its inner solver
    (QuantileLinearRegression), also when it was already fitted with its former configuration"""
    km = loader.load("mlmodel.kmeans_l1")
    qr = loader.load("mlmodel.quantile_regression")
    from . import c05

    def scenario(C):
        # ---- KMeansL1L2: the norm decides the implementation
        norms = ["L1", "L2"]
        n0, n1 = norms[C.choice("norm_before", 2)], norms[C.choice("norm_after", 2)]
        k = 2 + C.choice("k", 3)
        a = km.KMeansL1L2(norm=n1, n_clusters=k)
        b = km.KMeansL1L2(norm=n0, n_clusters=3)
        r = b.set_params(**a.get_params(deep=True))
        C.true(r is b, "set_params-returns-self")
        _same_params(C, b.get_params(deep=True), a.get_params(deep=True), "roundtrip/same-parameters")
        calls = []

        def rec(name):
            def f(self, *args, **kw):
                calls.append(name)
                return self if name.endswith("fit") else numpy.zeros(2)

            return f

        X = numpy.arange(8.0).reshape(4, 2)
        with harness.patched(km.KMeans, fit=rec("L2.fit"), predict=rec("L2.predict"), transform=rec("L2.transform")), harness.patched(km.KMeansL1L2, _fit_l1=rec("L1.fit"), _predict_l1=rec("L1.predict"), _transform_l1=rec("L1.transform")), harness.patched(km, check_is_fitted=lambda *a_, **k_: None):
            b._check_test_data = lambda Xa: Xa
            b.fit(X)
            b.predict(X)
            b.transform(X)
        C.true(calls == [f"{n1}.fit", f"{n1}.predict", f"{n1}.transform"], "roundtrip/behaves-identically(KMeansL1L2-runs-the-implementation-of-its-current-norm)", detail=(n0, n1, calls))
        # ---- ConstraintKMeans: explicit centres together with any n_init are reported as given, and clone works
        kc = loader.load("mlmodel.kmeans_constraint")
        ni = 2 + C.choice("n_init", 4)
        centers = numpy.arange(6.0).reshape(3, 2)
        ck = kc.ConstraintKMeans(n_clusters=3, init=centers, n_init=ni, max_iter=7)
        gp = ck.get_params()
        C.true(gp["n_init"] == ni and gp["init"] is centers and gp["max_iter"] == 7, "get_params-reports-the-configuration(ConstraintKMeans)", detail=gp.get("n_init"))
        try:
            cc = clone(ck)
            C.true(cc.get_params()["n_init"] == ni, "clone/equal-parameters(ConstraintKMeans)")
        except RuntimeError as ex:
            C.true(False, "clone/equal-parameters(ConstraintKMeans)", detail=str(ex)[:80])
        # ---- QuantileLinearRegression: fitted with one configuration, reconfigured, fitted again
        p0, p1 = bool(C.choice("positive_before", 2)), bool(C.choice("positive_after", 2))
        src = qr.QuantileLinearRegression(positive=p1, fit_intercept=False, max_iter=2)
        dst = qr.QuantileLinearRegression(positive=p0, fit_intercept=True, max_iter=3)
        inits = []

        class LR(c05.StubLR):
            def __init__(self, **kw):
                inits.append(kw)

            def fit(self, Xm, yy, sample_weight=None):
                self.coef_ = numpy.zeros(Xm.shape[1])
                return self

        with harness.patched(qr, LinearRegression=LR):
            Xq, yq = numpy.arange(6.0).reshape(3, 2), numpy.array([1.0, 2.0, 4.0])
            dst.fit(Xq, yq)
            dst.set_params(**src.get_params(deep=True))
            del inits[:]
            dst.fit(Xq, yq)
        _same_params(C, dst.get_params(deep=True), src.get_params(deep=True), "roundtrip/same-parameters")
        C.true(len(inits) >= 1 and all(kw.get("positive", False) == p1 and kw.get("fit_intercept") is False for kw in inits), "roundtrip/behaves-identically(QuantileLinearRegression-builds-its-solver-from-the-current-parameters)", detail=(p0, p1, inits[:2]))

    return scenario


SCEN = dict(roundtrip_behaviour=sc_roundtrip_behaviour, defaults=sc_defaults, learner=sc_learner, learner_rt=sc_learner_roundtrip, stacking=sc_stacking, skbase=sc_skbase, cak=sc_cak, cak_clone=sc_cak_clone, anmf=sc_anmf)


def _sig(cfg):
    def f(label):
        s = f"{cfg['kind']}:{label}"
        if cfg["kind"] == "stacking" and cfg["N"] > 10 and "key" in label:
            s += "(index>=10)"
        return s

    return f


def _slug(msg):
    import re

    msg = re.sub(r"'[^']*'", "", msg.split("(")[0])  # drop quoted names and everything after the first call-like repr
    return "-".join(re.findall(r"[A-Za-z]+", msg)[:8])


def run_config(cfg):
    scenario = SCEN[cfg["kind"]](cfg)
    r = harness.run_scenario(scenario, f"C01{cfg}", sig=_sig(cfg), cfg=cfg, on_exception_label="protocol-call-raises")
    for v in r["violations"]:
        if v["label"] == "protocol-call-raises" and isinstance(v["observed"], dict) and "raised" in v["observed"]:
            v["signature"] += ":" + _slug(v["observed"]["raised"])
    return r


def replay(cfg, inputs, label):
    return harness.replay_scenario(SCEN[cfg["kind"]](cfg), inputs, label, "protocol-call-raises")


def configs(tier):
    out = []
    for m in range(5):
        out.append(dict(kind="learner", method=m))
    for m in range(4):
        for m2 in range(4):
            if tier == "quick" and (m + m2) % 2:
                continue
            out.append(dict(kind="learner_rt", method=m, method2=m2, fit_first=bool(m % 2)))
    for N in (1, 2, 3, 11) if tier == "quick" else (1, 2, 3, 4, 10, 11, 12, 13):
        for wrap in (True, False):
            for m in (0, 1) if wrap else (3,):
                out.append(dict(kind="stacking", N=N, wrap=wrap, method=m))
    out.append(dict(kind="skbase"))
    out.append(dict(kind="roundtrip_behaviour"))
    out.append(dict(kind="defaults"))
    out.append(dict(kind="cak"))
    for est in (0, 1):
        out.append(dict(kind="cak_clone", estimator=est))
    for fp in (0, 1):
        for other in (0, 1, 2):
            out.append(dict(kind="anmf", fp=fp, other=other))
    return out


def run(ctx, rep):
    rep.add_functions("sklapi.sklearn_parameters", ["SkLearnParameters.__init__", "SkLearnParameters.validate", "SkLearnParameters.to_dict"])
    rep.add_functions("sklapi.sklearn_base", ["SkBase.__init__", "SkBase.get_params", "SkBase.set_params"])
    rep.add_functions("mlmodel.kmeans_l1", ["KMeansL1L2.__init__", "KMeansL1L2.fit", "KMeansL1L2.predict", "KMeansL1L2.transform"])
    rep.add_functions("mlmodel.quantile_regression", ["QuantileLinearRegression.__init__", "QuantileLinearRegression.fit"])
    rep.add_functions("sklapi.sklearn_base_transform_learner", ["SkBaseTransformLearner.__init__", "SkBaseTransformLearner._set_method", "SkBaseTransformLearner.get_params", "SkBaseTransformLearner.set_params", "SkBaseTransformLearner.transform"])
    rep.add_functions("sklapi.sklearn_base_transform_stacking", ["SkBaseTransformStacking.__init__", "SkBaseTransformStacking.get_params", "SkBaseTransformStacking.set_params", "SkBaseTransformStacking.transform"])
    rep.add_functions("mlmodel.classification_kmeans", ["ClassifierAfterKMeans.__init__", "ClassifierAfterKMeans.get_params", "ClassifierAfterKMeans.set_params"])
    rep.add_functions("mlmodel.anmf_predictor", ["ApproximateNMFPredictor.__init__", "ApproximateNMFPredictor._get_param_names", "ApproximateNMFPredictor.get_params"])
    cfgs = configs(ctx.tier)
    rep.bounds = dict(values="symbolic ints (initial configuration and the value set)", key="every key of get_params(deep=True) (symbolic index, realised)", stacked_models=sorted(set(c["N"] for c in cfgs if c["kind"] == "stacking")), methods=METHODS + ["callable"], history="constructor, set_params(one key), transform, set_params(**other.get_params(deep=True)), clone")
    rep.assumptions = [
        "inner models are BaseEstimator look-alikes (scikit-learn's generic get_params/set_params/clone machinery is trusted, not encoded); their outputs are polynomials of their parameters so behaviour is comparable without training",
        "sklearn.base.clone is the real one",
        "estimators that only store constructor arguments and inherit BaseEstimator's protocol unchanged (PiecewiseEstimator, KMeansL1L2, ConstraintKMeans, QuantileLinearRegression, ...) rely on that trusted machinery and are not re-verified here",
    ]
    rep.outside = ["scikit-learn's own get_params/set_params/clone", "non-integer parameter values (strings/callables only as the method option)"]
    rep.absorb(harness.pmap(MOD, "run_config", cfgs), layer="protocol scenarios")

    def twin(e):
        a = e.int("a")
        m = Inner(a, 0)
        m.set_params(b=1)
        e.prove_eq(m.get_params()["b"], 0, "twin")

    eng = sx.Engine(name="C01-twin")
    eng.explore(twin)
    rep.vacuity.append(dict(twin="set_params(b=1) leaves b == 0", refuted=bool(eng.cex)))
    if not eng.cex:
        rep.error("vacuity twin was not refuted")
