"""C15 -- learner-to-transformer wrappers are transparent.

SX, dual-mode scenarios over the real SkBaseTransformLearner / SkBaseTransformStacking /
TransferTransformer (with the real clone_with_fitted_parameters it uses).  Wrapped models are
recording BaseEstimator stubs whose fitted state (coef_) is a symbolic value computed from what
they were trained on, and whose predict / predict_proba / decision_function / transform are
polynomials of (coef_, X) -- so "returns exactly what the wrapped model returns" and "trained
exactly as a direct fit" are term equalities.  Enumerated: method option (incl. a callable and
the automatic choice), 1 or 2 rows, copy_estimator x trainable, the four signatures of the inner
fit, and the history fit / retrain the original / fit again.
"""
import numpy
from sklearn.base import BaseEstimator

from .. import harness, loader, sx

MOD = "vf.props.c15"
METHODS = ["predict", "predict_proba", "decision_function", "transform"]


SEEN = {}  # id(model) -> (X, y, w) of its last training (kept outside the object: fitted attributes are compared by the library)


class _Core(BaseEstimator):
    def __init__(self, a=1):
        self.a = a

    def _train(self, X, y, w):
        # the fitted state depends on everything it was given
        s = X[:, 0].sum() * 2
        if y is not None:
            s = s + y.sum() * 3
        if w is not None:
            s = s + w.sum() * 5
        self.coef_ = s + self.a
        self.n_fit_ = getattr(self, "n_fit_", 0) + 1
        SEEN[id(self)] = (X, y, w)
        return self

    def predict(self, X):
        return X[:, 0] * self.coef_ + 1

    def predict_proba(self, X):
        return numpy.column_stack([X[:, 0] * self.coef_, X[:, 0] + self.coef_])

    def decision_function(self, X):
        return X[:, 0] - self.coef_


class _Base(_Core):
    def transform(self, X):
        return numpy.column_stack([X[:, 0] * self.coef_ + 2, X[:, 0] * 0 + self.coef_, X[:, 0]])


class FitXYW(_Base):
    def fit(self, X, y=None, sample_weight=None):
        return self._train(X, y, sample_weight)


class FitXY(_Base):
    def fit(self, X, y=None):
        return self._train(X, y, None)


class FitXW(_Base):
    def fit(self, X, sample_weight=None):
        return self._train(X, None, sample_weight)


class FitX(_Base):
    def fit(self, X):
        return self._train(X, None, None)


class CrossFitted(FitXYW):
    """a transformer whose own fit_transform is NOT fit().transform() (cross-fitted encoders, NMF...)"""

    def fit_transform(self, X, y=None, **kw):
        self.fit(X, y, **kw)
        return self.transform(X) + 100


class NoTransform(_Core):
    def fit(self, X, y=None, sample_weight=None):
        return self._train(X, y, sample_weight)


class Composite(BaseEstimator):
    """a fitted composite (a Pipeline, a FeatureUnion): its state lives in its parts, the object itself owns no
    public attribute whose name ends with an underscore"""

    def __init__(self, a=1):
        self.a = a
        self.part = FitXYW(a)

    def fit(self, X, y=None, sample_weight=None):
        self.part.fit(X, y, sample_weight)
        return self

    def transform(self, X):
        return self.part.transform(X)


SIGS = {"xyw": FitXYW, "xy": FitXY, "xw": FitXW, "x": FitX}


def ref(method, coef, X):
    n = X.shape[0]
    x = X[:, 0]
    if callable(method):
        return [[x[i] * coef * 7] for i in range(n)]
    if method == "predict":
        return [[x[i] * coef + 1] for i in range(n)]
    if method == "predict_proba":
        return [[x[i] * coef, x[i] + coef] for i in range(n)]
    if method == "decision_function":
        return [[x[i] - coef] for i in range(n)]
    return [[x[i] * coef + 2, coef, x[i]] for i in range(n)]


def _cells(C, got, want, label, two_d=True):
    got = numpy.asarray(got, dtype=object)
    if two_d and got.ndim != 2:
        C.true(False, label + "/is-2-D", detail=got.shape)
        return
    if got.ndim == 1:
        got = got.reshape(-1, 1)
    if got.shape != (len(want), len(want[0])):
        C.true(False, label + "/shape", detail=(got.shape, (len(want), len(want[0]))))
        return
    for i in range(len(want)):
        for j in range(len(want[0])):
            C.eq(got[i, j], want[i][j], label)


def _data(C, n, tag):
    if C.symbolic:
        e = sx.cur()
        X = e.reals(f"X{tag}", n, 1)
        y = e.reals(f"y{tag}", n)
        w = e.reals(f"w{tag}", n)
    else:
        X = numpy.array([[float(C.inputs.get(f"X{tag}_{i}_0", i + 1.5))] for i in range(n)], dtype=object)
        y = numpy.array([float(C.inputs.get(f"y{tag}_{i}", 2.0 * i + 0.25)) for i in range(n)], dtype=object)
        w = numpy.array([float(C.inputs.get(f"w{tag}_{i}", i + 1.0)) for i in range(n)], dtype=object)
    return X, y, w


def trained(cls_a, X, y, w, use_y=True, use_w=True):
    s = X[:, 0].sum() * 2
    if use_y and y is not None:
        s = s + y.sum() * 3
    if use_w and w is not None:
        s = s + w.sum() * 5
    return s + cls_a


def sc_learner(cfg):
    L = loader.load("sklapi.sklearn_base_transform_learner").SkBaseTransformLearner
    n = cfg["rows"]

    def scenario(C):
        a = C.int("a")
        model = FitXYW(a)

        def fn(Xa):
            return Xa[:, 0] * model.coef_ * 7

        method = fn if cfg["method"] == 4 else METHODS[cfg["method"]]
        est = L(model, method)
        X, y, w = _data(C, n, "t")
        kw = dict(sample_weight=w) if cfg["weighted"] else {}
        r = est.fit(X, y, **kw)
        C.true(r is est, "fit-returns-self")
        C.true(model.n_fit_ == 1 and SEEN[id(model)][0] is X and SEEN[id(model)][1] is y and SEEN[id(model)][2] is (w if cfg["weighted"] else None), "wrapped-model-trained-exactly-as-a-direct-fit")
        coef = trained(a, X, y, w if cfg["weighted"] else None)
        C.eq(model.coef_, coef, "wrapped-model-trained-exactly-as-a-direct-fit")
        Xq, _, _ = _data(C, n, "q")
        _cells(C, est.transform(Xq), ref(method, coef, Xq), "transform==chosen-method-output-as-2-D")
        # second fit on other data: the transform follows the new state
        X2, y2, w2 = _data(C, n, "u")
        est.fit(X2, y2)
        _cells(C, est.transform(Xq), ref(method, trained(a, X2, y2, None), Xq), "transform-follows-a-refit")
        if cfg["method"] == 3:
            # fit_transform of the wrapper (what Pipeline.fit calls) is fit followed by transform of the wrapper, also
            # around a model whose own fit_transform answers something else
            cf = CrossFitted(a)
            lw = L(cf, "transform")
            out_ft = lw.fit_transform(X, y)
            _cells(C, out_ft, ref("transform", trained(a, X, y, None), X), "fit_transform==fit-then-transform-of-the-wrapped-model")
        if cfg["method"] != 4:
            # history: the wrapped model is replaced through set_params (alone: a grid over <step>__model does that),
            # then fit and transform: the outputs are the NEW model's
            a2 = C.int("a2")
            other = FitXYW(a2)
            est.set_params(model=other)
            est.fit(X, y)
            C.true(other.n_fit_ == 1 and model.n_fit_ == 2, "set_params(model=new):fit-trains-the-new-model-only")
            _cells(C, est.transform(Xq), ref(method, trained(a2, X, y, None), Xq), "set_params(model=new):transform-calls-the-new-model")

    return scenario


def sc_stacking(cfg):
    S = loader.load("sklapi.sklearn_base_transform_stacking").SkBaseTransformStacking
    n, N = cfg["rows"], cfg["N"]

    def scenario(C):
        As = [C.int(f"a{i}") for i in range(N)]
        models = [(NoTransform if cfg["wrap"] else FitXYW)(a) for a in As]
        if cfg.get("int_first"):
            # the first member answers an integer-typed array (class labels), the others reals
            m0 = models[0]
            orig = m0.predict
            if C.symbolic:
                m0.predict = lambda Xa: sx.int_array([sx.strunc(v) for v in orig(Xa)])
            else:
                m0.predict = lambda Xa: numpy.array([int(v) for v in orig(Xa)], dtype=numpy.int64)
        meth = METHODS[cfg["method"]] if cfg["wrap"] else None
        est = S(models, meth) if cfg["wrap"] else S(models)
        X, y, w = _data(C, n, "t")
        if cfg.get("int_X"):
            # counts: an integer-typed feature matrix -- every member is trained on it as a direct fit would be
            X = sx.int_array([[sx.strunc(v) for v in row] for row in X]) if C.symbolic else numpy.array([[int(float(v)) for v in row] for row in X], dtype=numpy.int64)
        mod = loader.load("sklapi.sklearn_base_transform_stacking")
        stack_np = harness.patched(mod, numpy=sx.TypedNumpy()) if C.symbolic else harness.patched(mod)
        wgt = w if cfg.get("weighted") else None
        r = est.fit(X, y, **(dict(sample_weight=w) if cfg.get("weighted") else {}))
        C.true(r is est, "fit-returns-self")
        for m in models:
            C.true(m.n_fit_ == 1 and SEEN[id(m)][0] is X and SEEN[id(m)][1] is y and SEEN[id(m)][2] is wgt, "every-member-trained-exactly-once-as-a-direct-fit(same-fit-parameters)")
        Xq, _, _ = _data(C, n, "q")
        eff = meth if cfg["wrap"] else "transform"
        rows = [[] for _ in range(n)]
        for k, a in enumerate(As):
            r_ = ref(eff, trained(a, X, y, wgt), Xq)
            if k == 0 and cfg.get("int_first"):
                r_ = [[sx.strunc(v) if C.symbolic else int(v) for v in row] for row in r_]
            for i in range(n):
                rows[i].extend(r_[i])
        with stack_np:
            got = est.transform(Xq)
        _cells(C, got, rows, "transform==column-concatenation-in-member-order")

    return scenario


def sc_transfer(cfg):
    TT = loader.load("mlmodel.transfer_transformer").TransferTransformer
    n = cfg["rows"]

    def scenario(C):
        a = C.int("a")
        cls = SIGS[cfg["sig"]]
        inner = cls(a)
        X0, y0, w0 = _data(C, n, "z")
        inner._train(X0, y0 if cfg["sig"] in ("xyw", "xy") else None, w0 if cfg["sig"] in ("xyw", "xw") else None)  # already trained
        coef0 = inner.coef_
        method = None if cfg["method"] is None else METHODS[cfg["method"]]
        est = TT(inner, method=method, copy_estimator=cfg["copy"], trainable=cfg["trainable"])
        eff = method or "transform"  # automatic choice: transform first
        X, y, w = _data(C, n, "t")
        before = dict(inner.__dict__)
        r = est.fit(X, y, w)
        C.true(r is est, "fit-returns-self")
        use_y = cfg["sig"] in ("xyw", "xy")
        use_w = cfg["sig"] in ("xyw", "xw")
        new = trained(a, X, y if use_y else None, w if use_w else None)
        if cfg["copy"]:
            C.true(est.estimator_ is not inner, "copy_estimator-uses-a-copy")
            C.true(all(inner.__dict__.get(k) is v for k, v in before.items()) and set(inner.__dict__) == set(before), "copy_estimator:original-object-never-modified", detail=sorted(k for k in inner.__dict__ if inner.__dict__[k] is not before.get(k)))
        else:
            C.true(est.estimator_ is inner, "no-copy:wraps-the-object-itself")
        if not cfg["trainable"]:
            C.true(inner.n_fit_ == 1 and est.estimator_.n_fit_ == 1, "not-trainable:fit-never-calls-the-wrapped-fit")
            expect = coef0
        else:
            C.true(est.estimator_.n_fit_ == 2, "trainable:the-wrapped-estimator-is-trained-once")
            expect = new
        C.eq(est.estimator_.coef_, expect, "fitted-state-after-fit")
        Xq, _, _ = _data(C, n, "q")
        _cells(C, est.transform(Xq), ref(eff, expect, Xq), "transform==wrapped-estimator's-output", two_d=False)
        # history: the original is retrained by its owner, then the wrapper is fitted again (copy: must pick up the new state)
        if cfg["copy"] and not cfg["trainable"]:
            X3, y3, w3 = _data(C, n, "r")
            inner.fit(*([X3] + ([y3] if use_y else [])))
            c3 = inner.coef_
            est.fit(X, y, w)
            C.eq(est.estimator_.coef_, c3, "refit-after-the-original-changed-copies-the-current-state")
            _cells(C, est.transform(Xq), ref(eff, c3, Xq), "refit-after-the-original-changed-copies-the-current-state", two_d=False)

    return scenario


def sc_transfer_composite(cfg):
    """a frozen TransferTransformer around an already fitted composite estimator (copy_estimator=False: it wraps
    the object itself) never trains it, whatever data fit is given"""
    TT = loader.load("mlmodel.transfer_transformer").TransferTransformer
    n = 2

    def scenario(C):
        a = C.int("a")
        inner = Composite(a)
        X0, y0, w0 = _data(C, n, "z")
        inner.fit(X0, y0)
        coef0 = inner.part.coef_
        est = TT(inner, method="transform", copy_estimator=False, trainable=False)
        X, y, w = _data(C, n, "t")
        est.fit(X, y)
        C.true(est.estimator_ is inner, "no-copy:wraps-the-object-itself")
        C.true(inner.part.n_fit_ == 1, "not-trainable:fit-never-calls-the-wrapped-fit", detail=inner.part.n_fit_)
        Xq, _, _ = _data(C, n, "q")
        _cells(C, est.transform(Xq), ref("transform", coef0, Xq), "transform==wrapped-estimator's-output")

    return scenario


class InPlace(BaseEstimator):
    """a model that, like SGD/partial_fit learners, updates its fitted arrays IN PLACE when trained again"""

    def __init__(self, a=1):
        self.a = a

    def fit(self, X, y=None, sample_weight=None):
        if not hasattr(self, "coef_"):
            self.coef_ = numpy.zeros(2)
            self.intercept_ = numpy.zeros(1)
        self.coef_ += numpy.asarray(X, dtype=float).sum(axis=0)[:2]
        self.intercept_ += 1.0
        return self

    def predict(self, X):
        return numpy.asarray(X, dtype=float)[:, :2] @ self.coef_ + self.intercept_[0]


def sc_transfer_inplace(cfg):
    TT = loader.load("mlmodel.transfer_transformer").TransferTransformer

    def scenario(C):
        k = 1 + C.choice("k", 3)
        X0 = numpy.arange(6.0).reshape(3, 2) + k
        X1 = numpy.arange(6.0).reshape(3, 2) * 2 - k
        inner = InPlace().fit(X0)
        coef0, icpt0 = inner.coef_.copy(), inner.intercept_.copy()
        pred0 = inner.predict(X0).copy()
        est = TT(inner, method="predict", copy_estimator=True, trainable=cfg["trainable"])
        est.fit(X1, numpy.zeros(3))
        C.true(est.estimator_ is not inner and not numpy.shares_memory(est.estimator_.coef_, inner.coef_), "copy_estimator:the-copy-shares-no-fitted-buffer-with-the-original")
        C.true(numpy.array_equal(inner.coef_, coef0) and numpy.array_equal(inner.intercept_, icpt0) and numpy.array_equal(inner.predict(X0), pred0), "copy_estimator:original-object-never-modified", detail=(inner.coef_.tolist(), coef0.tolist()))
        # the owner trains the original further: a frozen copy keeps its predictions
        snap = est.transform(X0).copy()
        inner.fit(X1)
        C.true(numpy.array_equal(est.transform(X0), snap), "copy_estimator:the-copy-does-not-follow-the-original", detail="original trained in place after the wrapper was fitted")

    return scenario


SCEN = dict(learner=sc_learner, stacking=sc_stacking, transfer=sc_transfer, transfer_inplace=sc_transfer_inplace, transfer_composite=sc_transfer_composite)


def run_config(cfg):
    return harness.run_scenario(SCEN[cfg["kind"]](cfg), f"C15{cfg}", cfg=cfg, sig=lambda l: f"{cfg['kind']}:{l}", on_exception_label="raises")


def replay(cfg, inputs, label):
    return harness.replay_scenario(SCEN[cfg["kind"]](cfg), inputs, label, "raises")


def configs(tier):
    out = []
    for m in range(5):
        for rows in (1, 2):
            for weighted in (False, True):
                out.append(dict(kind="learner", method=m, rows=rows, weighted=weighted))
    for N in (1, 2, 3):
        for rows in (1, 2):
            for wrap, meths in ((True, (0, 1, 2)), (False, (3,))):
                for m in meths:
                    out.append(dict(kind="stacking", N=N, rows=rows, wrap=wrap, method=m))
    for N in (2, 3):
        out.append(dict(kind="stacking", N=N, rows=2, wrap=True, method=0, int_first=True))
    for wrap in (False, True):
        out.append(dict(kind="stacking", N=2, rows=2, wrap=wrap, method=0, weighted=True))
        out.append(dict(kind="stacking", N=2, rows=2, wrap=wrap, method=0, int_X=True))
    for trainable in (False, True):
        out.append(dict(kind="transfer_inplace", trainable=trainable))
    out.append(dict(kind="transfer_composite"))
    for sig in SIGS:
        for copy in (True, False):
            for trainable in (False, True):
                for method in (None, 0, 1) if tier == "quick" else (None, 0, 1, 2, 3):
                    out.append(dict(kind="transfer", sig=sig, copy=copy, trainable=trainable, method=method, rows=2 if tier == "quick" else (1 if method == 1 else 2)))
    return out


def run(ctx, rep):
    rep.add_functions("sklapi.sklearn_base_transform_learner", ["SkBaseTransformLearner.__init__", "SkBaseTransformLearner._set_method", "SkBaseTransformLearner.fit", "SkBaseTransformLearner.transform"])
    rep.add_functions("sklapi.sklearn_base_transform_stacking", ["SkBaseTransformStacking.__init__", "SkBaseTransformStacking.fit", "SkBaseTransformStacking.transform"])
    rep.add_functions("mlmodel.transfer_transformer", ["TransferTransformer.__init__", "TransferTransformer.fit", "TransferTransformer.transform"])
    rep.add_functions("mlmodel.sklearn_testing", ["clone_with_fitted_parameters", "assert_estimator_equal"])
    cfgs = configs(ctx.tier)
    rep.bounds = dict(rows=[1, 2], members="1..3", methods=METHODS + ["callable", "automatic"], inner_fit_signatures=sorted(SIGS), flags="copy_estimator x trainable", history="fit / refit on other data; wrapper fit / original retrained / wrapper fit")
    rep.assumptions = [
        "wrapped models are recording BaseEstimator stubs: fitted state = an affine function of everything they were trained on, outputs polynomial in (state, X)",
        "symbolic data: X, y, sample_weight cells and the hyper-parameter a",
    ]
    rep.outside = ["what real scikit-learn models compute", "pickling"]
    rep.absorb(harness.pmap(MOD, "run_config", cfgs), layer="scenarios")

    def twin(e):
        a, b = e.real("a"), e.real("b")
        e.prove_eq(a * 2 + b * 3, a * 2, "twin")

    eng = sx.Engine(name="C15-twin")
    eng.explore(twin)
    rep.vacuity.append(dict(twin="training ignores the targets", refuted=bool(eng.cex)))
    if not eng.cex:
        rep.error("vacuity twin was not refuted")
