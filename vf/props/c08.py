"""C08 -- piecewise estimators: a partition by the binner with one local model per bucket.

SX, dual-mode scenario (symbolic run + concrete replay of the same code).  The real
PiecewiseEstimator.fit / _mapping_train / transform_bins / _fit_piecewise_estimator /
_apply_predict_method and the three _predict*_piecewise_estimator helpers, PiecewiseRegressor
.predict and PiecewiseClassifier.predict/predict_proba run with
 * the bucket of every training and query row a symbolic choice (realised: every routing,
   including query rows in buckets unseen at training time),
 * symbolic features, targets and weights (cell identity is what the local models record),
 * binner = stub tree (tree_.children_*, decision_path from the routing) or stub discretiser
   (transform -> sparse one-hot rows), local estimator = recording clonable stub whose outputs
   are uninterpreted functions F_model(row), joblib = sequential map in task order or reversed.
Obligations: one local model per non-empty training bucket, trained on exactly that bucket's
rows/targets/weights (classifier: plus exactly one borrowed row per class missing from the
bucket); transform_bins gives the row's bucket id or -1; predict(row) = F_bucket(row) or the
global fallback's output for -1; probability rows are the bucket model's; results independent of
the order in which joblib runs the tasks.
"""
import numpy
import scipy.sparse
import z3
from sklearn.base import BaseEstimator

from .. import harness, loader, sx

MOD = "vf.props.c08"


class StubTree(BaseEstimator):
    """binner with tree_: leaves are nodes 1..L of a star-shaped node table; routing = column 1 of X"""

    def __init__(self, n_leaves=2):
        self.n_leaves = n_leaves

    def fit(self, X, y=None, sample_weight=None):
        L = self.n_leaves
        # root 0 -> chain of internal nodes; leaves have children -1. Node ids: internal 0..L-2, leaves L-1..2L-2
        cl, cr = [], []
        for i in range(L - 1):
            cl.append(L - 1 + i)  # left child: a leaf
            cr.append(i + 1 if i + 1 < L - 1 else 2 * L - 2)  # right: next internal or the last leaf
        for _ in range(L):
            cl.append(-1)
            cr.append(-1)
        self.tree_ = type("T", (), dict(children_left=numpy.array(cl), children_right=numpy.array(cr)))()
        self.leaf_nodes_ = list(range(L - 1, 2 * L - 1))
        return self

    def decision_path(self, X):
        L = self.n_leaves
        m = numpy.zeros((len(X), 2 * L - 1), dtype=numpy.int64)
        for r in range(len(X)):
            b = int(X[r, 1])
            leaf = self.leaf_nodes_[b]
            m[r, leaf] = 1
            for i in range(min(b, L - 2) + 1):
                m[r, i] = 1
        return scipy.sparse.csr_matrix(m)


class StubBins(BaseEstimator):
    """binner with transform: sparse one-hot of the bucket id (column 1 of X)"""

    def __init__(self, n_bins=4):
        self.n_bins = n_bins

    def fit(self, X, y=None, sample_weight=None):
        return self

    def transform(self, X):
        m = numpy.zeros((len(X), self.n_bins), dtype=numpy.float64)
        for r in range(len(X)):
            m[r, int(X[r, 1])] = 1
        return scipy.sparse.csr_matrix(m)


class Local(BaseEstimator):
    """recording clonable local model; outputs are uninterpreted functions of (model id, row)"""

    log = None
    C = None
    classifier = False

    def __init__(self, alpha=1):
        self.alpha = alpha

    def fit(self, X, y, sample_weight=None):
        self.id_ = len(Local.log)
        Local.log.append((self, X, y, sample_weight))
        if Local.classifier:
            self.classes_ = numpy.array(sorted(set(int(v) for v in y)))
        return self

    def _f(self, name, x, k=0):
        C = Local.C
        if C.symbolic:
            F = z3.Function(f"{name}_{self.id_}_{k}", z3.RealSort(), z3.RealSort())
            return sx.SymReal(F(sx._real(sx.term(x))))
        if name == "P":
            # concrete replay: a cost-sensitive classifier -- its predict (class index id_ % 2 on a one-row batch)
            # is NOT the argmax of its probabilities
            return (0.2 if k == self.id_ % 2 else 0.8) + 0.001 * float(x)
        return float(x) * (self.id_ + 2) + 0.125 * k

    def predict(self, X):
        if Local.classifier:
            return numpy.array([self.classes_[(self.id_ + r) % len(self.classes_)] for r in range(len(X))])
        return sx.sarr([self._f("F", X[r, 0]) for r in range(len(X))]) if Local.C.symbolic else numpy.array([self._f("F", X[r, 0]) for r in range(len(X))])

    def predict_proba(self, X):
        rows = [[self._f("P", X[r, 0], k) for k in range(len(self.classes_))] for r in range(len(X))]
        return sx.sarr(rows) if Local.C.symbolic else numpy.array(rows)


class _NP(sx.Conversions):
    def __init__(self, rnd):
        self.random = rnd

    def __getattr__(self, k):
        return getattr(numpy, k)

    def zeros(self, shape, dtype=None, **kw):
        return sx.typed_empty(shape, dtype, fill=0)  # an integer dtype request gives a truncating buffer

    def full(self, shape, fill_value, dtype=None, **kw):
        return sx.typed_empty(shape, dtype, fill=fill_value)


class _Rnd:
    def __init__(self, C):
        self.C = C
        self.k = 0
        self.global_used = 0

    def RandomState(self, seed=None):
        outer = self
        self.seeds = getattr(self, "seeds", []) + [seed]
        if seed is None:
            outer.global_used += 1

        class RS:
            def shuffle(self, a):
                n = len(a)
                perm = []
                left = list(range(n))
                for i in range(n):
                    j = outer.C.choice(f"shuffle{outer.k}_{i}", len(left))
                    perm.append(left.pop(j))
                outer.k += 1
                a[:] = numpy.array([a[i] for i in perm])

        return RS()


def make_parallel(reverse):
    class P:
        def __init__(self, **kw):
            pass

        def __call__(self, tasks):
            tasks = list(tasks)
            order = list(range(len(tasks)))
            if reverse:
                order.reverse()
            out = [None] * len(tasks)
            for i in order:
                f, a, k = tasks[i]
                out[i] = f(*a, **k)
            return out

    return P


def scenario_for(cfg):
    pe = loader.load("mlmodel.piecewise_estimator")
    ntr, nq, nb = cfg["train"], cfg["query"], cfg["buckets"]
    clf = cfg["classifier"]

    def scenario(C):
        Local.log, Local.C, Local.classifier = [], C, clf
        btr = [C.choice(f"btr{i}", nb) for i in range(ntr)]
        bq = [C.choice(f"bq{i}", nb + (1 if cfg["binner"] == "bins" else 0)) for i in range(nq)]
        if C.symbolic:
            e = sx.cur()
            xtr = [e.real(f"x{i}") for i in range(ntr)]
            xq = [e.real(f"q{i}") for i in range(nq)]
            w = sx.sarr([e.real(f"w{i}") for i in range(ntr)]) if cfg["weighted"] else None
            if clf:
                y = numpy.array([C.choice(f"y{i}", 2) for i in range(ntr)])
            else:
                y = sx.sarr([e.real(f"y{i}") for i in range(ntr)])
        else:
            xtr = [float(C.inputs.get(f"x{i}", i + 0.5)) for i in range(ntr)]
            xq = [float(C.inputs.get(f"q{i}", i + 10.25)) for i in range(nq)]
            w = numpy.array([float(C.inputs.get(f"w{i}", i + 1.0)) for i in range(ntr)]) if cfg["weighted"] else None
            y = numpy.array([C.choice(f"y{i}", 2) for i in range(ntr)]) if clf else numpy.array([float(C.inputs.get(f"y{i}", 3.0 * i)) for i in range(ntr)])
        if clf:
            C.assume(len(set(y.tolist())) == 2)
        Xtr = numpy.empty((ntr, 2), dtype=object)
        Xq = numpy.empty((nq, 2), dtype=object)
        if cfg.get("int_query"):
            # an integer-typed query matrix (counts / codes): concrete integer features
            Xq = Xq.view(sx.IntArr)
            xq = [3 + 2 * i for i in range(nq)]
        for i in range(ntr):
            Xtr[i, 0], Xtr[i, 1] = xtr[i], btr[i]
        for i in range(nq):
            Xq[i, 0], Xq[i, 1] = xq[i], bq[i]
        binner = StubTree(n_leaves=nb) if cfg["binner"] == "tree" else StubBins(n_bins=nb + 1)
        rnd = _Rnd(C)
        if clf:
            est = pe.PiecewiseClassifier(binner=binner, estimator=Local(), random_state=cfg.get("seed"), n_jobs=cfg.get("n_jobs"))
        else:
            est = pe.PiecewiseRegressor(binner=binner, estimator=Local(), n_jobs=cfg.get("n_jobs"))
        with harness.patched(pe, numpy=_NP(rnd), Parallel=make_parallel(cfg["reverse"]), delayed=lambda f: (lambda *a, **k: (f, a, k))):
            r = est.fit(Xtr, y, sample_weight=w)
            C.true(r is est, "fit-returns-self")
            seen = sorted(set(btr))
            C.true(len(est.estimators_) == len(seen), "one-local-model-per-non-empty-training-bucket", detail=(len(est.estimators_), seen))
            # the global fallback is trained on everything
            mean = est.mean_estimator_
            ml = [t for t in Local.log if t[0] is mean]
            C.true(len(ml) == 1 and ml[0][1] is Xtr and ml[0][3] is w, "fallback-model-trained-on-the-whole-training-set")
            C.true(mean is not est.estimator and not hasattr(est.estimator, "id_"), "the-estimator-parameter-is-never-trained(the-fallback-model-is-a-clone-too)")
            classes = sorted(set(y.tolist())) if clf else None
            # bucket -> position of its model in estimators_, read from the fitted attribute mapping_
            # (keys: leaf node id of the tree / tuple of the discretiser's one-hot row)
            def key_of(bk):
                if cfg["binner"] == "tree":
                    return est.binner_.leaf_nodes_[bk]
                return tuple(1 if j == bk else 0 for j in range(nb + 1))

            position = {bk: est.mapping_.get(key_of(bk)) for bk in seen}
            C.true(sorted(position.values()) == list(range(len(seen))), "mapping_-is-a-bijection-buckets->models", detail=position)
            index_of_bucket = {}
            for k, model in enumerate(est.estimators_):
                rec = [t for t in Local.log if t[0] is model]
                C.true(len(rec) == 1, "each-local-model-fitted-once")
                if len(rec) != 1:
                    continue
                _, Xi, yi, wi = rec[0]
                got_rows = []
                for r_ in range(len(Xi)):
                    hit = [i for i in range(ntr) if Xi[r_, 0] is Xtr[i, 0]]
                    got_rows.append(hit[0] if hit else None)
                cand = [bk for bk, pos in position.items() if pos == k]
                b = cand[0] if cand else None
                C.true(b is not None and b not in index_of_bucket, "one-local-model-per-bucket(no-bucket-twice)", detail=(k, b))
                if b is None or b in index_of_bucket:
                    continue
                index_of_bucket[b] = k
                own = [i for i in range(ntr) if btr[i] == b]
                if not clf:
                    C.true(got_rows == own, "local-model-trained-on-exactly-its-bucket-rows", detail=(k, got_rows, own))
                else:
                    missing = [c for c in classes if c not in set(int(y[i]) for i in own)]
                    extra = [i for i in got_rows if i not in own]
                    C.true(all(i in got_rows for i in own) and None not in got_rows, "local-model-trained-on-exactly-its-bucket-rows", detail=(k, got_rows, own))
                    C.true(sorted(int(y[i]) for i in extra) == missing, "classifier-borrows-exactly-one-row-per-missing-class", detail=(k, extra, missing))
                for r_, i in enumerate(got_rows):
                    if i is None:
                        continue
                    C.true(yi[r_] is y[i] or (clf and int(yi[r_]) == int(y[i])) or (not C.symbolic and yi[r_] == y[i]), "row-keeps-its-target")
                    if cfg["weighted"]:
                        C.true(wi is not None and (wi[r_] is w[i] or (not C.symbolic and wi[r_] == w[i])), "row-keeps-its-weight")
                    else:
                        C.true(wi is None, "row-keeps-its-weight")
            C.true(sorted(index_of_bucket) == seen, "every-non-empty-bucket-has-its-model", detail=(sorted(index_of_bucket), seen))
            # routing of the query rows
            assoc = est.transform_bins(Xq)
            for i in range(nq):
                want = index_of_bucket.get(bq[i], -1)
                C.true(int(assoc[i]) == want, "transform_bins=bucket-id-or--1", detail=(i, bq[i], int(assoc[i]), want))
            if not clf:
                pred = est.predict(Xq)
                for i in range(nq):
                    model = est.estimators_[index_of_bucket[bq[i]]] if bq[i] in index_of_bucket else mean
                    C.eq(pred[i], model._f("F", xq[i]), "predict(row)=its-bucket-model(row)-or-fallback", detail=(i, bq[i]))
                # per-row purity: the same rows alone give the same outputs
                for i in range(nq):
                    one = est.predict(Xq[i : i + 1])
                    C.eq(one[0], pred[i], "batch==single-row")
            else:
                proba = est.predict_proba(Xq)
                C.true(proba.shape == (nq, 2), "proba-shape")
                for i in range(nq):
                    model = est.estimators_[index_of_bucket[bq[i]]] if bq[i] in index_of_bucket else mean
                    for k in range(2):
                        C.eq(proba[i, k], model._f("P", xq[i], k), "proba-row=its-bucket-model's", detail=(i, k))
                lab = est.predict(Xq)
                for i in range(nq):
                    C.true(int(lab[i]) in classes, "predicted-label-in-classes_")
                if nq == 1:
                    model = est.estimators_[index_of_bucket[bq[0]]] if bq[0] in index_of_bucket else mean
                    C.true(int(lab[0]) == int(model.predict(Xq[0:1])[0]), "predict(row)=its-bucket-model's-predict(row)(not-a-label-rebuilt-from-probabilities)", detail=(int(lab[0]), bq[0]))
                C.true(sorted(est.classes_.tolist()) == classes, "classes_")
                if cfg.get("seed") is not None:
                    C.true(rnd.global_used == 0, "integer-random_state-never-falls-back-to-an-unseeded-generator")
                    C.true(all(sd == cfg["seed"] for sd in getattr(rnd, "seeds", [])), "every-generator-is-built-from-random_state(whatever-n_jobs)", detail=getattr(rnd, "seeds", []))

    return scenario


# ------------------------------------------------------------------ a real KBinsDiscretizer as binner


def _kb_class():
    from sklearn.preprocessing import KBinsDiscretizer

    class KB(KBinsDiscretizer):
        """the real class (the dispatch code may test for it) with fixed uniform edges; transform follows the
        documented rule -- bin = number of interior edges <= x -- on symbols (validated against the parent's
        transform on and around every edge in this run)"""

        EDGES = [0.0, 1.0, 2.0, 3.0]

        def fit(self, X, y=None, sample_weight=None):
            d = X.shape[1]
            self.bin_edges_ = numpy.empty(d, dtype=object)
            for j in range(d):
                self.bin_edges_[j] = numpy.array(self.EDGES)
            self.n_bins_ = numpy.array([len(self.EDGES) - 1] * d)
            self.n_features_in_ = d
            return self

        def bin_of(self, v):
            return sum(1 for e_ in self.EDGES[1:-1] if bool(v >= e_))

        def transform(self, X):
            nb = len(self.EDGES) - 1
            m = numpy.zeros((len(X), nb * X.shape[1]), dtype=numpy.float64)
            for r in range(len(X)):
                for j in range(X.shape[1]):
                    m[r, j * nb + self.bin_of(X[r, j])] = 1
            return scipy.sparse.csr_matrix(m)

    return KB


def sc_kbins(cfg):
    pe = loader.load("mlmodel.piecewise_estimator")
    ntr, nq = cfg["train"], cfg["query"]

    def scenario(C):
        KB = _kb_class()
        Local.log, Local.C, Local.classifier = [], C, False
        if C.symbolic:
            e = sx.cur()
            xtr, xq = [e.real(f"x{i}") for i in range(ntr)], [e.real(f"q{i}") for i in range(nq)]
            y = sx.sarr([e.real(f"y{i}") for i in range(ntr)])
        else:
            xtr = [float(C.inputs.get(f"x{i}", i + 0.5)) for i in range(ntr)]
            xq = [float(C.inputs.get(f"q{i}", i + 1.0)) for i in range(nq)]
            y = numpy.array([float(C.inputs.get(f"y{i}", 3.0 * i)) for i in range(ntr)])
        for v in xtr + xq:
            C.assume(v >= 0)
            C.assume(v <= 3)
        Xtr = numpy.empty((ntr, 1), dtype=object)
        Xq = numpy.empty((nq, 1), dtype=object)
        for i in range(ntr):
            Xtr[i, 0] = xtr[i]
        for i in range(nq):
            Xq[i, 0] = xq[i]
        if not C.symbolic:
            Xtr, Xq = Xtr.astype(float), Xq.astype(float)
        kb = KB(n_bins=3, encode="onehot", strategy="uniform")
        est = pe.PiecewiseRegressor(binner=kb, estimator=Local())
        rnd = _Rnd(C)
        with harness.patched(pe, numpy=_NP(rnd), Parallel=make_parallel(False), delayed=lambda f: (lambda *a, **k: (f, a, k))):
            est.fit(Xtr, y)
            btr = [est.binner_.bin_of(v) for v in xtr]
            bq = [est.binner_.bin_of(v) for v in xq]
            mean = est.mean_estimator_
            model_of = {}
            for t in Local.log:
                if t[0] is mean:
                    continue
                rows = [i for r_ in range(len(t[1])) for i in range(ntr) if t[1][r_, 0] is Xtr[i, 0] or (not C.symbolic and t[1][r_, 0] == Xtr[i, 0])]
                bs = set(btr[i] for i in rows)
                C.true(len(bs) == 1, "kbins/local-model-trained-on-exactly-its-bucket-rows", detail=(rows, btr))
                if len(bs) == 1:
                    b = bs.pop()
                    C.true(sorted(set(rows)) == [i for i in range(ntr) if btr[i] == b], "kbins/local-model-trained-on-exactly-its-bucket-rows", detail=(rows, btr))
                    model_of[b] = t[0]
            C.true(sorted(model_of) == sorted(set(btr)), "kbins/every-non-empty-bucket-has-its-model")
            pred = est.predict(Xq)
            for i in range(nq):
                model = model_of.get(bq[i], mean)
                C.eq(pred[i], model._f("F", xq[i]), "kbins/predict(row)=the-model-of-the-cell-the-binner-puts-it-in(or-fallback)", detail=(i, bq[i]))

    return scenario


def _validate_kb():
    """KB.transform == KBinsDiscretizer.transform (same edges) on, between and beyond the edges"""
    from sklearn.preprocessing import KBinsDiscretizer

    KB = _kb_class()
    real = KBinsDiscretizer(n_bins=3, encode="onehot", strategy="uniform").fit(numpy.array([[0.0], [3.0]]))
    pts = numpy.array([[v] for v in (-1.0, 0.0, 0.5, 1.0, 1.5, 2.0, 2.5, 3.0, 4.0)])
    mine = KB(n_bins=3, encode="onehot", strategy="uniform").fit(pts)
    same_edges = numpy.allclose(real.bin_edges_[0], mine.bin_edges_[0])
    return same_edges and numpy.array_equal(real.transform(pts).toarray(), mine.transform(pts).toarray())


def run_config(cfg):
    if cfg.get("kind") == "kbins":
        r = harness.run_scenario(sc_kbins(cfg), f"C08{cfg}", cfg=cfg, sig=lambda l: "reg/" + l, on_exception_label="raises")
        if _validate_kb():
            r["validated"] = r.get("validated", 0) + 1
        else:
            r.setdefault("errors", []).append("the discretiser model disagrees with sklearn's KBinsDiscretizer.transform")
        return r
    return harness.run_scenario(scenario_for(cfg), f"C08{cfg}", cfg=cfg, sig=lambda l: ("clf/" if cfg["classifier"] else "reg/") + l, on_exception_label="raises")


def replay(cfg, inputs, label):
    if cfg.get("kind") == "kbins":
        return harness.replay_scenario(sc_kbins(cfg), inputs, label, "raises")
    return harness.replay_scenario(scenario_for(cfg), inputs, label, "raises")


def configs(tier):
    out = []
    for binner in ("tree", "bins"):
        for reverse in (False, True):
            for weighted in (False, True):
                if tier == "quick" and weighted and reverse:
                    continue
                out.append(dict(classifier=False, binner=binner, reverse=reverse, weighted=weighted, train=3, query=2, buckets=3, n_jobs=2 if reverse else None))
                if tier != "quick" and binner == "tree" and not weighted:
                    out.append(dict(classifier=False, binner=binner, reverse=reverse, weighted=weighted, train=4, query=1, buckets=3, n_jobs=2 if reverse else None))
    for clf_ in (False, True):
        out.append(dict(classifier=clf_, binner="bins", reverse=False, weighted=False, train=3, query=2 if not clf_ else 1, buckets=2, int_query=True, seed=None, n_jobs=None))
    for binner in ("tree", "bins"):
        for seed in (None, 0, 7):
            out.append(dict(classifier=True, binner=binner, reverse=False, weighted=seed == 7, train=3, query=1, buckets=2, seed=seed, n_jobs=3 if seed == 0 else None))
    if tier != "quick":
        out.append(dict(classifier=True, binner="tree", reverse=True, weighted=True, train=4, query=1, buckets=2, seed=0))
    out.append(dict(kind="kbins", classifier=False, train=2, query=1))
    if tier != "quick":
        out.append(dict(kind="kbins", classifier=False, train=3, query=2))
    return out


def run(ctx, rep):
    rep.add_functions("mlmodel.piecewise_estimator", ["_fit_piecewise_estimator", "_predict_piecewise_estimator", "_predict_proba_piecewise_estimator", "PiecewiseEstimator.fit", "PiecewiseEstimator._mapping_train", "PiecewiseEstimator.transform_bins", "PiecewiseEstimator._apply_predict_method", "PiecewiseRegressor.predict", "PiecewiseClassifier.predict", "PiecewiseClassifier.predict_proba"])
    cfgs = configs(ctx.tier)
    rep.bounds = dict(training_rows="3 (4 thorough)", query_rows="1-2", buckets="2-3 (+1 unseen cell for the discretiser)", routing="every assignment of rows to buckets (symbolic, realised)", task_order=["in order", "reversed"], n_jobs=[None, 2, 3], random_state=[None, 0, 7])
    rep.assumptions = [
        "binner = stub tree (node table + decision_path) or stub discretiser (sparse one-hot transform), both clonable; routing by a concrete bucket column",
        "local estimator = recording clonable stub; its outputs are uninterpreted functions of (model, row) -- row-wise pure by construction, so any batch dependence is the dispatch code's",
        "joblib.Parallel = sequential map in task order or reversed (real thread schedules are not modelled)",
        "RandomState.shuffle = an arbitrary permutation (symbolic, realised)",
    ]
    rep.outside = ["thread schedules of joblib", "what scikit-learn binners/local models compute", "decision_function"]
    rep.absorb(harness.pmap(MOD, "run_config", cfgs), layer="scenarios")

    def twin(e):
        F = z3.Function("F", z3.RealSort(), z3.RealSort())
        a, b = e.real("a"), e.real("b")
        e.prove_eq(sx.SymReal(F(a.t)), sx.SymReal(F(b.t)), "twin")

    eng = sx.Engine(name="C08-twin")
    eng.explore(twin)
    rep.vacuity.append(dict(twin="a local model gives every row the same output", refuted=bool(eng.cex)))
    if not eng.cex:
        rep.error("vacuity twin was not refuted")
