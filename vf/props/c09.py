"""C09 -- PiecewiseTreeRegressor: per-leaf least squares; criteria compute the true MSE.

CY2PY + SX.  The .pyx split criteria of the working tree are lowered to Python with Cython's own
parser (vf/cy2py.py), validated in every run against the compiled extension on concrete inputs
(same _test_criterion_* accessors, results compared to 1e-9), and then executed on symbolic
targets / weights for every (start, pos, end) triple and the listed sample orders:
 node value = sum(w*y)/sum(w); node and children impurities = weighted mean squared residual of
 the constant fit over exactly idx[start:end], idx[start:pos], idx[pos:end]; proxy and
 impurity_improvement = the documented formulas on those quantities; a criterion moved by
 update/reset equals one initialised fresh.  Linear criterion (unit weights): dgelss is a stub
 that CHECKS the matrices it is handed ([X[idx[k],:],1]*w_k column-major, b = w_k*y) and
 answers an arbitrary (fresh symbolic) beta; impurity = mean squared residual of that beta over
 exactly the node's rows, 0 when rows <= coefficients.
Python side: PiecewiseTreeRegressor._fit_reglin/_predict_reglin/predict on a stub tree:
 leaf i's regression sees exactly the rows routed to leaf i; predict(row) = [row,1].betas_[leaf].
"""
import itertools
import os
import types
from fractions import Fraction

import numpy
import z3

from .. import cy2py, harness, loader, sx

MOD = "vf.props.c09"
PYX = ["_piecewise_tree_regression_common", "piecewise_tree_regression_criterion", "piecewise_tree_regression_criterion_fast", "piecewise_tree_regression_criterion_linear"]
CLS = {"simple": "SimpleRegressorCriterion", "fast": "SimpleRegressorCriterionFast", "linear": "LinearRegressorCriterion"}

_LOWERED = None


def lowered():
    global _LOWERED
    if _LOWERED is None:
        srcs = [(n, open(loader.repo_path("mlinsights", "mlmodel", n + ".pyx")).read()) for n in PYX]
        text = cy2py.lower_modules(srcs)
        text = text.replace("cnp.import_array()", "pass")
        mod = types.ModuleType("vf_lowered_criteria")
        mod.__dict__["memcpy"] = _memcpy
        mod.__dict__["memset"] = _memset
        exec(compile(text, "<lowered criteria>", "exec"), mod.__dict__)
        mod.__text__ = text
        _LOWERED = mod
    return _LOWERED


def _memcpy(dest, src, nbytes):
    for i in range(int(nbytes) // 8):
        dest[i] = src[i]


def _memset(dest, value, nbytes):
    """libc memset on a float64 buffer: only the all-zero fill has a defined float meaning"""
    if value != 0:
        raise cy2py.Cy2PyError("memset with a non-zero byte on a float64 buffer")
    for i in range(int(nbytes) // 8):
        dest[i] = 0


def compiled(kind):
    loader.install(with_ext=True)
    import importlib

    common = importlib.import_module("mlinsights.mlmodel._piecewise_tree_regression_common")
    m = importlib.import_module("mlinsights.mlmodel." + {"simple": PYX[1], "fast": PYX[2], "linear": PYX[3]}[kind])
    return common, getattr(m, CLS[kind])


# ------------------------------------------------------------------ dgelss


class Dgelss:
    """LAPACK stub: checks its inputs against the node's rows, answers a fresh beta"""

    def __init__(self, mode, e=None):
        self.mode, self.e = mode, e
        self.calls = []

    def __call__(self, row, col, nrhs, A, lda, b, ldb, S, rcond, rank, work, lwork, info):
        r, c = int(row[0]), int(col[0])
        rec = dict(solver="dgelss", lwork=int(lwork[0]), rows=r, cols=c, lda=int(lda[0]), ldb=int(ldb[0]), nrhs=int(nrhs[0]), A=[A[i] for i in range(r * c)], b=[b[i] for i in range(r)])
        self.calls.append(rec)
        if self.mode == "numpy":
            Am = numpy.array(rec["A"], dtype=float).reshape(c, r).T  # column-major
            bv = numpy.array(rec["b"], dtype=float)
            beta = numpy.linalg.lstsq(Am, bv, rcond=None)[0]
            for j in range(c):
                b[j] = float(beta[j])
            rec["beta"] = [float(v) for v in beta]
        else:
            k = len(self.calls)
            beta = [self.e.real(f"beta{k}_{j}") for j in range(c)]
            for j in range(c):
                b[j] = beta[j]
            rec["beta"] = beta
        info[0] = 0


class Dgels:
    """dgels (QR/LQ): same recording; its documented contract only covers FULL RANK matrices"""

    solver = "dgels"

    def __init__(self, mode, e=None, log=None):
        self.mode, self.e = mode, e
        self.calls = log if log is not None else []

    def __call__(self, trans, row, col, nrhs, A, lda, b, ldb, work, lwork, info):
        r, c = int(row[0]), int(col[0])
        rec = dict(solver="dgels", rows=r, cols=c, lda=int(lda[0]), ldb=int(ldb[0]), nrhs=int(nrhs[0]), A=[A[i] for i in range(r * c)], b=[b[i] for i in range(r)])
        self.calls.append(rec)
        if self.mode == "numpy":
            from scipy.linalg import lapack

            Am = numpy.array(rec["A"], dtype=float).reshape(c, r).T
            bv = numpy.zeros(max(r, c))
            bv[:r] = numpy.array(rec["b"], dtype=float)
            _, sol, inf = lapack.dgels(Am, bv)
            for j in range(c):
                b[j] = float(sol[j])
            rec["beta"] = [float(v) for v in sol[:c]]
            info[0] = int(inf)
            return
        k = len(self.calls)
        beta = [self.e.real(f"beta{k}_{j}") for j in range(c)]
        for j in range(c):
            b[j] = beta[j]
        rec["beta"] = beta
        info[0] = 0


RANK_REVEALING = ("dgelss", "dgelsd", "dgelsy")  # LAPACK drivers whose contract covers rank-deficient matrices


class Lapack:
    """the cython_lapack namespace of the lowered module: one call log for whichever driver the code uses"""

    def __init__(self, mode, e=None):
        self.dgelss = Dgelss(mode, e)
        self.calls = self.dgelss.calls
        self.dgels = Dgels(mode, e, self.calls)

    def __getattr__(self, name):
        raise sx.SXError(f"cython_lapack.{name}: a LAPACK routine this check has no contract for")


# ------------------------------------------------------------------ drivers (same code for both implementations)


def make(mod_common, cls, kind, n, X=None):
    if kind == "linear":
        return cls(1, X)
    return cls(1, n)


def drive(common, crit, y2, w, wsum, samples, start, pos, end):
    """-> dict of observables through the _test_criterion_* accessors"""
    common._test_criterion_init(crit, y2, w, wsum, samples, start, end)
    if pos != start:
        common._test_criterion_update(crit, pos)
    out = dict(
        value=common._test_criterion_node_value(crit),
        impurity=common._test_criterion_node_impurity(crit),
        children=common._test_criterion_node_impurity_children(crit),
        proxy=common._test_criterion_proxy_impurity_improvement(crit),
    )
    return out


def _orders(n, which):
    ident = list(range(n))
    if which == "identity":
        return [ident]
    if which == "two":
        return [ident, ident[::-1]] if n > 1 else [ident]
    return [list(p) for p in itertools.permutations(ident)]


def _triples(n):
    return [(s, p, e) for s in range(n + 1) for e in range(s + 1, n + 1) for p in range(s, e + 1)]


# ------------------------------------------------------------------ validation of the lowering


def run_validate(cfg):
    kind, n = cfg["kind_c"], cfg["n"]
    L = lowered()
    common_c, cls_c = compiled(kind)
    rng = numpy.random.RandomState(cfg["seed"])
    stats = sx.Stats()
    errors, validated = [], 0
    for trial in range(cfg["trials"]):
        y = rng.randn(n) * 3
        w = None if (kind == "linear" or trial % 3 == 0) else rng.randint(1, 4, size=n).astype(float) * 0.5
        X = rng.randn(n, cfg.get("d", 1))
        samples = rng.permutation(n).astype(numpy.intp)
        wsum = float(n if w is None else w.sum())
        for (s, p, e) in _triples(n):
            cc = make(common_c, cls_c, kind, n, numpy.ascontiguousarray(X))
            ref = drive(common_c, cc, numpy.ascontiguousarray(y.reshape(-1, 1)), w, wsum, samples, s, p, e)
            L.cython_lapack = Lapack("numpy")
            lc = make(L, getattr(L, CLS[kind]), kind, n, X)
            got = drive(L, lc, y.reshape(-1, 1), w, wsum, samples, s, p, e)
            for k in ("value", "impurity", "proxy"):
                a, b = float(ref[k]), float(got[k])
                if not (abs(a - b) <= 1e-8 * max(1, abs(a)) or (a != a and b != b)):
                    errors.append(f"lowered {kind} disagrees with the compiled module on {k}: {a} vs {b} (n={n}, triple={(s, p, e)})")
            for a, b in zip(ref["children"], got["children"]):
                if not abs(float(a) - float(b)) <= 1e-8 * max(1, abs(float(a))):
                    errors.append(f"lowered {kind} disagrees on children impurity: {a} vs {b} (n={n}, triple={(s, p, e)})")
            validated += 1
            if errors:
                return dict(stats=stats.as_dict(), errors=errors[:2], validated=validated)
    return dict(stats=stats.as_dict(), errors=[], validated=validated)


# ------------------------------------------------------------------ symbolic check of the criteria


def _grid_weight(i, wseed):
    """non-uniform rational weights; grid 9 has a ZERO weight on row 1 (masked / out-of-bag rows)"""
    if wseed == 9 and i == 1:
        return Fraction(0)
    return Fraction((i * 2 + wseed) % 3 + 1, 2)


def run_crit(cfg):
    kind, n, order, wmode = cfg["kind_c"], cfg["n"], cfg["order"], cfg["wmode"]
    s0, p0, e0 = cfg["triple"]
    L = lowered()
    d = cfg.get("d", 1)

    def h(e):
        y = e.reals("y", n)
        y2 = y.reshape(-1, 1)
        if wmode == "unit":
            w = None
            wv = [1] * n
        elif wmode == "grid":
            wv = [_grid_weight(i, cfg.get("wseed", 1)) for i in range(n)]
            w = sx.sarr(wv)
        else:
            w = e.reals("w", n)
            for i in range(n):
                e.assume(w[i] > 0)
            wv = list(w)
        X = e.reals("X", n, d) if kind == "linear" else None
        wsum = sx.ssum(wv)
        hook = Lapack("symbolic", e)
        L.cython_lapack = hook
        crit = make(L, getattr(L, CLS[kind]), kind, n, X)
        samples = numpy.array(order)
        obs = drive(L, crit, y2, w, wsum, samples, s0, p0, e0)

        def stats_of(a, b):
            idx = [order[k] for k in range(a, b)]
            W = sx.ssum([wv[i] for i in idx]) if idx else 0
            A = sx.ssum([wv[i] * y[i] for i in idx]) if idx else 0
            return idx, W, A

        idx, W, A = stats_of(s0, e0)
        val = obs["value"]
        e.prove_eq(val * W, A, f"{kind}/node_value=sum(wy)/sum(w)")
        if wmode == "symbolic":
            # fully symbolic weights: node value and the children weights only (degree <= 2); the impurity
            # identities are degree 4 in (w, y, quotients) and z3's nlsat does not finish on them: they are
            # decided on the rational weight grids instead (stated bound)
            _, Wl, _ = stats_of(s0, p0)
            _, Wr, _ = stats_of(p0, e0)
            e.prove_eq(crit.weighted_n_left, Wl, f"{kind}/weighted_n_left")
            e.prove_eq(crit.weighted_n_right, Wr, f"{kind}/weighted_n_right")
            e.prove_eq(crit.weighted_n_node_samples, W, f"{kind}/weighted_n_node_samples")
            return
        if kind != "linear":
            def check_imp(imp, a, b, label):
                ii, Wi, Ai = stats_of(a, b)
                if not ii:
                    e.prove_eq(imp, 0, label + "/empty-child=0")
                    return
                # mean m with m*Wi == Ai (fresh, exact); impurity*Wi == sum w (y-m)^2
                m = e.fresh_real("m")
                e.add_definition(m.t * sx._real(sx.term(Wi)) == sx._real(sx.term(Ai)))
                e.prove_eq(imp * Wi, sx.ssum([wv[i] * (y[i] - m) * (y[i] - m) for i in ii]), label)

            check_imp(obs["impurity"], s0, e0, f"{kind}/node_impurity=weighted-MSE")
            check_imp(obs["children"][0], s0, p0, f"{kind}/children_impurity(left)")
            check_imp(obs["children"][1], p0, e0, f"{kind}/children_impurity(right)")
        else:
            def check_lin(imp, a, b, label, call):
                ii, Wi, Ai = stats_of(a, b)
                if len(ii) <= d + 1:
                    e.prove_eq(imp, 0, label + "/rows<=coefficients=0")
                    return None
                rec = call
                okd = rec is not None and rec["rows"] == len(ii) and rec["cols"] == d + 1 and rec["lda"] == len(ii) and rec["ldb"] == len(ii) and rec["nrhs"] == 1
                e.prove(okd, label + "/dgelss-dimensions")
                if not okd:
                    return None
                # the node's design [X, 1] is arbitrary here -- duplicated rows, a feature constant inside the node --
                # so the fit must come from a driver whose contract covers rank-deficient matrices
                e.prove(rec["solver"] in RANK_REVEALING, "linear/least-squares-driver-covers-rank-deficient-designs", detail=rec["solver"])
                if rec["solver"] == "dgelss":
                    # LAPACK: LWORK >= 3*min(M,N) + max(2*min(M,N), max(M,N), NRHS), else the call is refused (info=-12)
                    mn, mx = min(rec["rows"], rec["cols"]), max(rec["rows"], rec["cols"])
                    e.prove(rec["lwork"] >= 3 * mn + max(2 * mn, mx, rec["nrhs"]), "linear/dgelss-workspace-meets-the-documented-minimum", detail=(rec["lwork"], rec["rows"], rec["cols"]))
                for r, i in enumerate(ii):
                    for j in range(d + 1):
                        e.prove_eq(rec["A"][j * len(ii) + r], (X[i, j] if j < d else 1) * wv[i], label + "/dgelss-gets-exactly-the-node-rows")
                    e.prove_eq(rec["b"][r], wv[i] * y[i], label + "/dgelss-gets-exactly-the-node-targets")
                beta = rec["beta"]
                res = [sx.ssum([X[i, j] * beta[j] for j in range(d)]) + beta[d] - y[i] for i in ii]
                e.prove_eq(imp * Wi, sx.ssum([wv[i] * r_ * r_ for i, r_ in zip(ii, res)]), label)

            # calls are made in the order: node impurity, left child, right child (those with enough rows)
            calls = list(hook.calls)

            def next_call(a, b):
                return calls.pop(0) if (b - a) > d + 1 and calls else None

            # drive() asks: node_value (no call), node_impurity, children (left, right), proxy (left, right)
            check_lin(obs["impurity"], s0, e0, "linear/node_impurity=MSE-of-the-linear-fit", next_call(s0, e0))
            check_lin(obs["children"][0], s0, p0, "linear/children_impurity(left)", next_call(s0, p0))
            check_lin(obs["children"][1], p0, e0, "linear/children_impurity(right)", next_call(p0, e0))
        # weights of the children, proxy and improvement formulas
        _, Wl, _ = stats_of(s0, p0)
        _, Wr, _ = stats_of(p0, e0)
        e.prove_eq(crit.weighted_n_left, Wl, f"{kind}/weighted_n_left")
        e.prove_eq(crit.weighted_n_right, Wr, f"{kind}/weighted_n_right")
        e.prove_eq(crit.weighted_n_node_samples, W, f"{kind}/weighted_n_node_samples")
        if kind != "linear":
            il, ir = obs["children"]
            if p0 in (s0, e0):
                e.prove(sx._isnan(obs["proxy"]), f"{kind}/proxy=NaN-at-the-boundaries")
            else:
                e.prove_eq(obs["proxy"], -(Wr * ir) - (Wl * il), f"{kind}/proxy_impurity_improvement")
            ip = obs["impurity"]
            imp = L._test_criterion_impurity_improvement(crit, ip, il, ir)
            # N_t/N * (parent - N_R/N_t*right - N_L/N_t*left), cross-multiplied by N*N_t
            # (a node whose rows all have weight zero has no N_t to divide by: scikit-learn never evaluates one)
            if sx.is_sym(W) or W != 0:
                e.prove_eq(imp * wsum, W * ip - Wr * ir - Wl * il, f"{kind}/impurity_improvement")
            # the SAME criterion object initialised again on a later range (what a tree builder does node after node)
            # == a fresh one initialised there (stale cumulated sums)
            if e0 - s0 >= 2 and wmode != "symbolic":
                s2 = s0 + 1
                L._test_criterion_init(crit, y2, w, wsum, samples, s2, e0)
                again = L._test_criterion_node_impurity(crit), L._test_criterion_node_value(crit)
                c3 = make(L, getattr(L, CLS[kind]), kind, n, X)
                L._test_criterion_init(c3, y2, w, wsum, samples, s2, e0)
                fresh = L._test_criterion_node_impurity(c3), L._test_criterion_node_value(c3)
                e.prove_eq(again[0], fresh[0], f"{kind}/initialised-again-on-a-later-range==fresh(impurity)")
                e.prove_eq(again[1], fresh[1], f"{kind}/initialised-again-on-a-later-range==fresh(value)")
                if p0 > s2:
                    L._test_criterion_update(crit, p0)
                    L._test_criterion_update(c3, p0)
                    la, ra = L._test_criterion_node_impurity_children(crit)
                    lf, rf = L._test_criterion_node_impurity_children(c3)
                    e.prove_eq(la, lf, f"{kind}/initialised-again-on-a-later-range==fresh(children)")
                    e.prove_eq(ra, rf, f"{kind}/initialised-again-on-a-later-range==fresh(children)")
                # back to the state the next block expects
                L._test_criterion_init(crit, y2, w, wsum, samples, s0, e0)
                if p0 != s0:
                    L._test_criterion_update(crit, p0)
            # moved by update/reset == initialised fresh (stale buffers)
            if cfg.get("moves"):
                c2 = make(L, getattr(L, CLS[kind]), kind, n, X)
                L._test_criterion_init(c2, y2, w, wsum, samples, s0, e0)
                for q in cfg["moves"]:
                    if s0 <= q <= e0 and q >= c2.pos:
                        L._test_criterion_update(c2, q)
                c2.reset()
                if p0 != s0:
                    L._test_criterion_update(c2, p0)
                l2, r2 = L._test_criterion_node_impurity_children(c2)
                e.prove_eq(l2, il, f"{kind}/moved==fresh")
                e.prove_eq(r2, ir, f"{kind}/moved==fresh")
                e.prove_eq(c2.weighted_n_left, crit.weighted_n_left, f"{kind}/moved==fresh")
                e.prove_eq(c2.weighted_n_right, crit.weighted_n_right, f"{kind}/moved==fresh")

    eng = sx.Engine(name=f"C09{cfg}", logic="QF_NRA" if wmode == "symbolic" else None)
    eng.stop_on_cex = False
    eng.explore(h)
    viol, seen = [], set()
    for c in eng.cex:
        if c.label in seen:
            continue
        seen.add(c.label)
        ok, obs = replay(cfg, c.inputs, c.label)
        viol.append(harness.violation(c.label, c.label, cfg, c.inputs, obs, ok))
    return dict(stats=eng.stats.as_dict(), violations=viol)


def replay_rankdef():
    """real PiecewiseTreeRegressor(criterion='mselin') on designs that are rank deficient inside a leaf:
    predictions == per-leaf least-squares fitted values (unique even then), root impurity == MSE of that fit"""
    ptr = loader.load("mlmodel.piecewise_tree_regression", with_ext=True)
    rng = numpy.random.RandomState(0)
    n = 60
    x0 = numpy.sort(rng.uniform(-2, 2, n))
    y = 1.5 * x0 - 0.5 + rng.normal(size=n) * 0.3
    step = (x0 > 0).astype(float)
    designs = dict(null_column=numpy.c_[x0, numpy.zeros(n)], constant_column=numpy.c_[x0, numpy.full(n, 3.7)], duplicated_column=numpy.c_[x0, x0], step_feature=numpy.c_[x0, step])
    for name, X in designs.items():
        X = numpy.ascontiguousarray(X)
        for kw in (dict(min_samples_leaf=n), dict(max_depth=1, min_samples_leaf=10)):
            try:
                est = ptr.PiecewiseTreeRegressor(criterion="mselin", **kw).fit(X, y)
                pred = est.predict(X)
                leaves = est.apply(X)
            except Exception as ex:
                return True, dict(design=name, raised=f"{type(ex).__name__}: {str(ex)[:160]}")
            for l in numpy.unique(leaves):
                rows = leaves == l
                A = numpy.hstack([X[rows], numpy.ones((rows.sum(), 1))])
                fitted = A @ numpy.linalg.lstsq(A, y[rows], rcond=None)[0]
                err = float(numpy.abs(fitted - pred[rows]).max())
                if not err <= 1e-6 * max(1.0, float(numpy.abs(y).max())):
                    return True, dict(design=name, params=kw, leaf=int(l), rows=int(rows.sum()), rank=int(numpy.linalg.matrix_rank(A)), columns=A.shape[1], max_abs_error=err)
            A = numpy.hstack([X, numpy.ones((n, 1))])
            mse = float(((A @ numpy.linalg.lstsq(A, y, rcond=None)[0] - y) ** 2).mean())
            got = float(est.tree_.impurity[0])
            if not abs(got - mse) <= 1e-6 * max(1.0, mse):
                return True, dict(design=name, params=kw, root_impurity=got, mse_of_the_linear_fit=mse)
    return False, "rank-deficient leaves: predictions are the least-squares fitted values"


def replay_small_leaves():
    """real PiecewiseTreeRegressor(criterion='mselin') with leaves of 2..2(d+1)-1 rows: predictions == per-leaf OLS"""
    ptr = loader.load("mlmodel.piecewise_tree_regression", with_ext=True)
    rng = numpy.random.RandomState(2)
    for d, msl in ((1, 2), (1, 3), (3, 5)):
        X = rng.randn(24, d)
        y = X.sum(axis=1) * 2 + rng.randn(24)
        try:
            est = ptr.PiecewiseTreeRegressor(criterion="mselin", min_samples_leaf=msl, max_depth=3, random_state=0).fit(X, y)
            pred, leaves = est.predict(X), est.apply(X)
        except Exception as ex:
            return True, dict(d=d, min_samples_leaf=msl, raised=f"{type(ex).__name__}: {str(ex)[:160]}")
        for l in numpy.unique(leaves):
            rows = leaves == l
            A = numpy.hstack([X[rows], numpy.ones((rows.sum(), 1))])
            fitted = A @ numpy.linalg.lstsq(A, y[rows], rcond=None)[0]
            err = float(numpy.abs(fitted - pred[rows]).max())
            if not err <= 1e-6 * max(1.0, float(numpy.abs(y).max())):
                return True, dict(features=d, min_samples_leaf=msl, leaf=int(l), rows=int(rows.sum()), max_abs_error=err)
    return False, "small leaves: predictions are the least-squares fitted values"


def replay(cfg, inputs, label):
    """compiled extension, concrete floats, independent NumPy oracle"""
    if "covers-rank-deficient-designs" in label or cfg["kind"] == "contract":
        return replay_rankdef()
    if "dgelss-workspace" in label:
        return replay_small_leaves()
    if cfg["kind"] == "pyside":
        ok, obs = harness.replay_scenario(run_py(cfg), inputs, label)
        return (ok, obs) if ok else replay_py(cfg, inputs, label)
    kind, n, order = cfg["kind_c"], cfg["n"], cfg["order"]
    s0, p0, e0 = cfg["triple"]
    d = cfg.get("d", 1)
    common, cls = compiled(kind)
    y = numpy.array([float(inputs.get(f"y_{i}", i * 1.5 - 1)) for i in range(n)])
    if numpy.ptp(y) == 0:
        y = y + numpy.arange(n) * 1.25
    if cfg["wmode"] == "unit":
        w = None
        wv = numpy.ones(n)
    elif cfg["wmode"] == "grid":
        wv = numpy.array([float(_grid_weight(i, cfg.get("wseed", 1))) for i in range(n)])
        w = wv.copy()
    else:
        wv = numpy.array([float(inputs.get(f"w_{i}", 1 + i)) for i in range(n)])
        w = wv.copy()
    X = numpy.array([[float(inputs.get(f"X_{i}_{j}", (i * 3 + j * 7) % 5 + 0.5 * i)) for j in range(d)] for i in range(n)])
    samples = numpy.array(order, dtype=numpy.intp)
    crit = make(common, cls, kind, n, numpy.ascontiguousarray(X))
    try:
        obs = drive(common, crit, numpy.ascontiguousarray(y.reshape(-1, 1)), w, float(wv.sum()), samples, s0, p0, e0)
    except Exception as ex:
        return True, f"raised {type(ex).__name__}: {ex}"

    def mse(a, b):
        idx = [order[k] for k in range(a, b)]
        if not idx:
            return 0.0
        ww, yy = wv[idx], y[idx]
        if kind == "linear":
            if len(idx) <= d + 1:
                return 0.0
            A = numpy.hstack([X[idx], numpy.ones((len(idx), 1))])
            beta = numpy.linalg.lstsq(A, yy, rcond=None)[0]
            return float(((A @ beta - yy) ** 2).mean())
        m = (ww * yy).sum() / ww.sum()
        return float((ww * (yy - m) ** 2).sum() / ww.sum())

    idx = [order[k] for k in range(s0, e0)]
    want = dict(value=float((wv[idx] * y[idx]).sum() / wv[idx].sum()), impurity=mse(s0, e0), left=mse(s0, p0), right=mse(p0, e0))
    got = dict(value=float(obs["value"]), impurity=float(obs["impurity"]), left=float(obs["children"][0]), right=float(obs["children"][1]))
    if kind != "linear":
        # improvement = N_t/N * (parent - N_R/N_t*right - N_L/N_t*left), N = total WEIGHT; proxy = -(N_R*right + N_L*left)
        Wn, Wl, Wr = float(wv[idx].sum()), float(wv[[order[k] for k in range(s0, p0)]].sum()), float(wv[[order[k] for k in range(p0, e0)]].sum())
        if Wn > 0:
            want["improvement"] = (Wn * want["impurity"] - Wr * want["right"] - Wl * want["left"]) / float(wv.sum())
            got["improvement"] = float(common._test_criterion_impurity_improvement(crit, obs["impurity"], obs["children"][0], obs["children"][1]))
        if p0 not in (s0, e0):
            want["proxy"] = -(Wr * want["right"]) - (Wl * want["left"])
            got["proxy"] = float(obs["proxy"])
    bad = {k: (got[k], want[k]) for k in want if not abs(got[k] - want[k]) <= 1e-7 * max(1, abs(want[k]))}  # a NaN is a difference
    if bad:
        return True, dict(criterion=CLS[kind], y=y.tolist(), w=None if w is None else w.tolist(), sample_indices=order, triple=[s0, p0, e0], got_vs_expected={k: list(v) for k, v in bad.items()})
    return False, "compiled criterion agrees with the NumPy oracle"


# ------------------------------------------------------------------ Python side: per-leaf regressions


def run_py(cfg):
    import sys

    import scipy.sparse

    ptr = loader.load("mlmodel.piecewise_tree_regression", with_ext=True)
    n, nleaves, d = cfg["n"], cfg["leaves"], 1
    if nleaves == 2:
        cl, cr, leaves_nodes, paths = [1, -1, -1], [2, -1, -1], [1, 2], {1: [0, 1], 2: [0, 2]}
    else:
        cl, cr, leaves_nodes, paths = [1, -1, 3, -1, -1], [2, -1, 4, -1, -1], [1, 3, 4], {1: [0, 1], 3: [0, 2, 3], 4: [0, 2, 4]}

    def scenario(C):
        leaf_of = [C.choice(f"leaf{i}", nleaves) for i in range(n)]
        rows_of = {l: [i for i in range(n) if leaf_of[i] == l] for l in range(nleaves)}
        C.assume(all(len(v) > 0 for v in rows_of.values()))
        if C.symbolic:
            X = sx.cur().reals("X", n, d)
            y = sx.cur().reals("y", n)
            Xq = sx.cur().reals("Q", 2, d)
            if cfg.get("int_query"):
                Xq = sx.int_array([[sx.cur().int(f"Q_{i}_{j}", -9, 9) for j in range(d)] for i in range(2)])  # a grid of counts
        else:
            X = numpy.array([[float(C.inputs.get(f"X_{i}_0", i))] for i in range(n)], dtype=object)
            y = numpy.array([float(C.inputs.get(f"y_{i}", 2 * i)) for i in range(n)], dtype=object)
            Xq = numpy.array([[1.5], [-2.0]], dtype=object)
            if cfg.get("int_query"):
                Xq = numpy.array([[int(C.inputs.get("Q_0_0", 3))], [int(C.inputs.get("Q_1_0", -2))]], dtype=numpy.int64)
        qleaf = [C.choice(f"qleaf{i}", nleaves) for i in range(2)]
        seen = []

        class FakeCrit:
            @staticmethod
            def create(Xl, yl, sw=None):
                k = len(seen)
                beta = [C.real(f"b{k}_{j}") for j in range(d + 1)]
                seen.append((Xl, yl, sw, beta))

                class R:
                    def node_beta(self, dest):
                        for j in range(d + 1):
                            dest[j] = beta[j]

                return R()

        est = ptr.PiecewiseTreeRegressor(criterion="mselin")
        est.tree_ = types.SimpleNamespace(children_left=numpy.array(cl), children_right=numpy.array(cr), n_leaves=nleaves)

        def decision_path(Xa):
            which = leaf_of if Xa is X else qleaf
            m = numpy.zeros((len(which), len(cl)), dtype=numpy.int64)
            for i, l in enumerate(which):
                m[i, paths[leaves_nodes[l]]] = 1
            return scipy.sparse.csr_matrix(m)

        est.decision_path = decision_path
        # the same routing through the other accessor of the fitted tree (node index of each row's leaf)
        est.apply = lambda Xa, check_input=True: numpy.array([leaves_nodes[l] for l in (leaf_of if Xa is X else qleaf)], dtype=numpy.int64)
        name = "mlinsights.mlmodel.piecewise_tree_regression_criterion_linear"
        old = sys.modules.get(name)
        sys.modules[name] = types.SimpleNamespace(LinearRegressorCriterion=FakeCrit)
        try:
            with harness.patched(ptr, numpy=_PYNP()):
                est._fit_reglin(X, y, None)
                C.true(len(seen) == nleaves, "one-regression-per-leaf")
                for l, (Xl, yl, sw, beta) in enumerate(seen[:nleaves]):
                    rows = rows_of[l]
                    ok = len(Xl) == len(rows) and len(yl) == len(rows)
                    C.true(ok, "leaf-regression-gets-exactly-its-rows", detail=(l, len(Xl), rows))
                    if ok:
                        for r, i in enumerate(rows):
                            C.eq(Xl[r, 0], X[i, 0], "leaf-regression-gets-exactly-its-rows")
                            C.eq(numpy.ravel(yl)[r], y[i], "leaf-regression-gets-exactly-its-targets")
                pred = est.predict(Xq)
                for i in range(2):
                    b = seen[qleaf[i]][3]
                    C.eq(pred[i], Xq[i, 0] * b[0] + b[1], "predict(row)=[row,1].beta(leaf(row))")
                if cfg.get("refit_layout") and nleaves == 3:
                    # history: the same instance fitted again; the new tree has as many leaves under OTHER node ids
                    # (mirror image: leaves 2, 3, 4 instead of 1, 3, 4): the leaf regressions follow the new tree
                    cl2, cr2, leaves2, paths2 = [1, 3, -1, -1, -1], [2, 4, -1, -1, -1], [2, 3, 4], {2: [0, 2], 3: [0, 1, 3], 4: [0, 1, 4]}
                    est.tree_ = types.SimpleNamespace(children_left=numpy.array(cl2), children_right=numpy.array(cr2), n_leaves=3)

                    def decision_path2(Xa):
                        which = leaf_of if Xa is X else qleaf
                        m2 = numpy.zeros((len(which), 5), dtype=numpy.int64)
                        for i, l in enumerate(which):
                            m2[i, paths2[leaves2[l]]] = 1
                        return scipy.sparse.csr_matrix(m2)

                    est.decision_path = decision_path2
                    est.apply = lambda Xa, check_input=True: numpy.array([leaves2[l] for l in (leaf_of if Xa is X else qleaf)], dtype=numpy.int64)
                    del seen[:]
                    est._fit_reglin(X, y, None)
                    C.true(list(est.leaves_index_) == leaves2, "refit-with-another-tree-layout/leaves_index_-describes-the-new-tree", detail=list(est.leaves_index_))
                    C.true(len(seen) == nleaves, "refit-with-another-tree-layout/one-regression-per-leaf")
                    for l, (Xl, yl, sw, beta) in enumerate(seen[:nleaves]):
                        rows = rows_of[l]
                        ok = len(Xl) == len(rows)
                        C.true(ok, "refit-with-another-tree-layout/leaf-regression-gets-exactly-its-rows", detail=(l, len(Xl), rows))
                        if ok:
                            for r, i in enumerate(rows):
                                C.eq(Xl[r, 0], X[i, 0], "refit-with-another-tree-layout/leaf-regression-gets-exactly-its-rows")
                # history: the same instance switched to criterion='simple' and refitted predicts the leaf mean
                # (the parent's predict), not the stale per-leaf regressions
                est.set_params(criterion="simple")
                called = []
                with harness.patched(ptr.DecisionTreeRegressor, predict=lambda self, Xa, check_input=True: called.append(1) or "parent"):
                    out = est.predict(Xq)
                C.true(isinstance(out, str) and out == "parent" and bool(called), "criterion=simple-after-mselin-uses-the-tree-prediction")
        finally:
            if old is None:
                sys.modules.pop(name, None)
            else:
                sys.modules[name] = old

    return scenario


class _PYNP(sx.Conversions):
    def __getattr__(self, k):
        return getattr(numpy, k)

    def empty(self, shape, dtype=None, **kw):
        return sx.typed_empty(shape, dtype)

    def zeros(self, shape, dtype=None, **kw):
        return sx.typed_empty(shape, dtype, fill=0)

    def ones(self, shape, dtype=None, **kw):
        return sx.typed_empty(shape, dtype, fill=1)

    def full(self, shape, fill_value, dtype=None, **kw):
        return sx.typed_empty(shape, dtype, fill=fill_value)


def replay_py(cfg, inputs, label):
    """real PiecewiseTreeRegressor(criterion='mselin') on real data: predictions == per-leaf OLS"""
    ptr = loader.load("mlmodel.piecewise_tree_regression", with_ext=True)
    rng = numpy.random.RandomState(3)
    X = numpy.sort(rng.rand(40, 1) * 10, axis=0)
    y = numpy.where(X[:, 0] < 5, 2 * X[:, 0] + 1, -3 * X[:, 0] + 40) + rng.randn(40) * 0.01
    try:
        est = ptr.PiecewiseTreeRegressor(criterion="mselin", max_depth=2, min_samples_leaf=8).fit(X, y)
        pred = est.predict(X)
        leaves = est.predict_leaves(X)
    except Exception as ex:
        return True, f"raised {type(ex).__name__}: {str(ex)[:200]}"
    for l in set(leaves.tolist()):
        rows = numpy.nonzero(leaves == l)[0]
        A = numpy.hstack([X[rows], numpy.ones((len(rows), 1))])
        beta = numpy.linalg.lstsq(A, y[rows], rcond=None)[0]
        if not numpy.allclose(A @ beta, pred[rows], atol=1e-6):
            return True, dict(leaf=int(l), rows=rows[:5].tolist(), predicted=pred[rows][:3].tolist(), per_leaf_ols=(A @ beta)[:3].tolist())
    return False, "predictions are the per-leaf least-squares fits"


def run_contract(cfg):
    """the assumption behind the symbolic LAPACK stub ("a rank-revealing driver answers the least-squares
    fit of whatever design it is handed") checked on the compiled code for designs that are rank deficient
    inside a leaf; a failure is a C09 violation (predictions are not the per-leaf fit), replay = same run"""
    ok, obs = replay_rankdef()
    label = "linear/least-squares-driver-covers-rank-deficient-designs(compiled)"
    viol = [harness.violation(label, label, cfg, {}, obs, True)] if ok else []
    st = sx.Stats()
    return dict(stats=st.as_dict(), violations=viol, validated=8)


def run_config(cfg):
    if cfg["kind"] == "validate":
        return run_validate(cfg)
    if cfg["kind"] == "contract":
        return run_contract(cfg)
    if cfg["kind"] == "pyside":
        return harness.run_scenario(run_py(cfg), f"C09{cfg}", cfg=cfg, sig=lambda l: "pyside/" + l)
    return run_crit(cfg)


def configs(tier):
    out = []
    for kind in ("simple", "fast", "linear"):
        out.append(dict(kind="validate", kind_c=kind, n=5, trials=3 if tier == "quick" else 10, seed=7, d=1))
    out.append(dict(kind="contract"))
    nmax = 4 if tier == "quick" else 5
    for kind in ("simple", "fast"):
        for n in range(1, nmax + 1):
            orders = _orders(n, "two" if (tier == "quick" or n > 4) else "all")
            for order in orders:
                for tr in _triples(n):
                    span = tr[2] - tr[0]
                    for wmode, wseed in (("unit", 0), ("grid", 1), ("grid", 2), ("grid", 9), ("symbolic", 0)):
                        if tier == "quick" and wmode == "grid" and wseed == 2:
                            continue
                        if wseed == 9 and n < 2:
                            continue
                        out.append(dict(kind="crit", kind_c=kind, n=n, order=order, triple=list(tr), wmode=wmode, wseed=wseed, moves=[tr[0] + 1, tr[2]] if wmode != "symbolic" else None))
    for n in (3, 4) if tier == "quick" else (3, 4, 5):
        for order in _orders(n, "two"):
            for tr in _triples(n):
                out.append(dict(kind="crit", kind_c="linear", n=n, d=1, order=order, triple=list(tr), wmode="unit"))
    if tier != "quick":
        for tr in _triples(4):
            out.append(dict(kind="crit", kind_c="linear", n=4, d=2, order=[2, 0, 3, 1], triple=list(tr), wmode="unit"))
    out.append(dict(kind="pyside", n=3 if tier == "quick" else 4, leaves=2))
    out.append(dict(kind="pyside", n=3, leaves=3, refit_layout=True))
    out.append(dict(kind="pyside", n=3, leaves=2, int_query=True))
    return out


def run(ctx, rep):
    rep.engine = "CY2PY (Cython parser -> Python) + SX"
    loader.install(with_ext=True)
    for n in PYX:
        info = loader.functions_sha("mlmodel." + n)
        rep.functions.append(f"mlinsights/mlmodel/{n}.pyx (every cdef/def method, lowered) [{info['file']}@{info['sha256']}]")
    rep.add_functions("mlmodel.piecewise_tree_regression", ["PiecewiseTreeRegressor._fit_reglin", "PiecewiseTreeRegressor._predict_reglin"])
    L = lowered()
    cfgs = configs(ctx.tier)
    rep.bounds = dict(samples=f"n <= {max(c['n'] for c in cfgs if c['kind'] == 'crit')}", triples="every 0 <= start <= pos <= end <= n, start < end", orders="identity + reversed (all permutations for n <= 4 in thorough)", weights="unit; two rational grids over {1/2, 1, 3/2} (non-uniform); fully symbolic (>0) for node value and children weights only", linear="unit weights, d <= 1 (2 thorough)")
    rep.assumptions = [
        f"the criteria are lowered from the working tree's .pyx by vf/cy2py.py ({len(L.__text__.splitlines())} lines of Python) and validated in this run against the compiled extension on concrete inputs (every triple, permuted order, weights)",
        "dgelss (LAPACK) is a stub: its inputs are checked against the node's rows, its answer is an ARBITRARY beta -- the numerical quality of LAPACK is trusted",
        "reals not floats; impurities are compared cross-multiplied by the (positive) weight sums",
        "scikit-learn's tree builder (max_depth / min_samples_leaf given a correct criterion) is not encoded",
    ]
    rep.outside = ["dgelss numerics", "scikit-learn's splitter honouring max_depth/min_samples_leaf", "non-unit weights for the linear criterion (excluded by the property)", "pickling of criteria"]
    res = harness.pmap(MOD, "run_config", cfgs)
    rep.absorb(res, layer="criteria + per-leaf regressions")
    rep.extra_samples.append(dict(lowered_excerpt=[l for l in L.__text__.splitlines() if "def _mse" in l or "squ" in l][:6]))

    def twin(e):
        y = e.reals("y", 2)
        m = (y[0] + y[1]) / 2
        e.prove_eq((y[0] - m) * (y[0] - m) + (y[1] - m) * (y[1] - m), (y[0] - m) * (y[0] - m), "twin")

    eng = sx.Engine(name="C09-twin")
    eng.explore(twin)
    rep.vacuity.append(dict(twin="the squared residual of the second row is always 0", refuted=bool(eng.cex)))
    if not eng.cex:
        rep.error("vacuity twin was not refuted")
