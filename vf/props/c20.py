"""C20 -- time-series framing never looks ahead.

SXL: the real ``build_ts_X_y`` (use_all_past=False, delay1=1, both same_rows) and its caller
``BaseTimeSeries._base_fit_predict`` run with the series length n SYMBOLIC AND UNBOUNDED
(n >= past + delay2 - 1): y, X, weights are uninterpreted functions of the time index, the
result arrays are write-logs, and for a symbolic row r z3 shows every cell is the one the
property names -- for every n in one query.  past, delay2, ncol are loop bounds (enumerated).

SX: ``ts_mape`` on symbolic series of concrete length <= 5/6 with every NaN pattern the naive
forecast produces.
"""
import itertools
from fractions import Fraction

import numpy
import z3

from .. import harness, loader, sx, sxl

MOD = "vf.props.c20"


def configs(tier):
    pasts = range(1, 5) if tier == "quick" else range(1, 7)
    delays = range(2, 6) if tier == "quick" else range(2, 8)
    out = []
    for past in pasts:
        for delay2 in delays:
            for ncol in (0, 1, 2):
                for w in (False, True):
                    for same in (False, True):
                        out.append(dict(kind="frame", past=past, delay2=delay2, ncol=ncol, w=w, same=same, via="build_ts_X_y"))
            for same in (False, True):
                out.append(dict(kind="frame", past=past, delay2=delay2, ncol=0, w=False, same=same, via="build_ts_X_y", reused=True))
            # the caller used by the regressors (same_rows=True)
            for ncol in (0, 2):
                out.append(dict(kind="frame", past=past, delay2=delay2, ncol=ncol, w=True, same=True, via="_base_fit_predict"))
    return out


def _call(cfg, X, y, w):
    utils = loader.load("timeseries.utils")
    base = loader.load("timeseries.base")
    if cfg.get("reused"):
        # history: the same model object framed another series with another window before (set_params in between)
        past0 = 1 if cfg["past"] != 1 else 3
        model = base.BaseTimeSeries(past=past0, delay1=1, delay2=cfg["delay2"], use_all_past=False)
        utils.build_ts_X_y(model, None, numpy.arange(30.0), None, same_rows=cfg["same"])
        model.set_params(past=cfg["past"])
    else:
        model = base.BaseTimeSeries(past=cfg["past"], delay1=1, delay2=cfg["delay2"], use_all_past=False)
    if cfg["via"] == "build_ts_X_y":
        return utils.build_ts_X_y(model, X, y, w, same_rows=cfg["same"])
    return model._base_fit_predict(X, y, w)


def run_frame(cfg):
    utils = loader.load("timeseries.utils")
    base = loader.load("timeseries.base")
    past, delay2, ncol = cfg["past"], cfg["delay2"], cfg["ncol"]
    first = delay2 + past - 2

    def h(e):
        n = e.int("n")
        e.assume(n >= past + delay2 - 1)  # at least one row (documented: enough observations)
        e.len_bound = (n.t, past + delay2 - 1 + 12)  # only used if the code under test calls len() on the series
        r = e.int("r")  # the row looked at: arbitrary
        y = sxl.LInput("y", n)
        X = sxl.LInput("X", n, cols=ncol, is1d=False) if ncol else None
        w = sxl.LInput("w", n) if cfg["w"] else None
        # each input has its own dtype token: which one a table is allocated with is observable
        y.dtype = sxl.DType()
        if X is not None:
            X.dtype = sxl.DType()
        if w is not None:
            w.dtype = sxl.DType()
        old = utils.numpy, base.check_ts_X_y
        utils.numpy = sxl.NumpyProxy(numpy)
        base.check_ts_X_y = lambda model, X, y: None  # dtype/length assertions only (stub)
        try:
            nX, ny, nw = _call(cfg, X, y, w)
        finally:
            utils.numpy, base.check_ts_X_y = old
        nrow = n.t - delay2 - past + 2
        rows = n.t if cfg["same"] else nrow
        ok = e.prove(z3.And(sx.term(nX.shape[0]) == rows, nX.shape[1] == ncol + past) if not isinstance(nX.shape[0], int) else False, "shape/X")
        ok &= e.prove(z3.And(sx.term(ny.shape[0]) == rows, ny.shape[1] == delay2 - 1) if not isinstance(ny.shape[0], int) else False, "shape/y")
        if not ok:
            return
        # the lag columns hold values of the series: the feature and target tables are allocated with ITS dtype
        # (integer or float32 exogenous features must not truncate / round the lags)
        e.prove(getattr(nX, "dtype", None) is y.dtype and getattr(ny, "dtype", None) is y.dtype, "tables-are-allocated-with-the-series'-dtype", detail=(repr(getattr(nX, "dtype", None)), repr(y.dtype)))
        off = first if cfg["same"] else 0
        inr = z3.And(r.t >= 0, r.t < nrow)
        row = r.t + off
        for j in range(past):  # lag j is y[r + j]: consecutive, newest = y[r+past-1]
            e.prove(z3.Implies(inr, sxl.is_value(nX.read(row, ncol + j), y.at(r.t + j))), "lag", detail=j)
        for c in range(ncol):  # exogenous features aligned to the newest lag
            e.prove(z3.Implies(inr, sxl.is_value(nX.read(row, c), X.at(r.t + past - 1, c))), "exogenous", detail=c)
        for t in range(delay2 - 1):  # targets consecutive, first one exactly 1 after the newest lag
            e.prove(z3.Implies(inr, sxl.is_value(ny.read(row, t), y.at(r.t + past + t))), "target", detail=t)
        if cfg["w"]:
            if nw is None:
                e.prove(False, "weights/none")
            elif cfg["same"]:
                e.prove(sx.term(nw.shape[0]) == rows, "shape/w")
                good = e.prove(z3.Implies(inr, sxl.is_value(nw.read(row, 0), w.at(r.t + past - 1))), "weights/same_rows")
                if not good:
                    # the listed finding is precisely "the caller's weights are returned unshifted":
                    # anything else is a different violation and gets its own signature
                    ncex = len(e.cex)
                    if not e.prove(z3.Implies(z3.And(r.t >= 0, r.t < n.t), sxl.is_value(nw.read(r.t, 0), w.at(r.t))), "weights/same_rows/not-even-unshifted"):
                        del e.cex[ncex - 1]  # report the more specific one
            else:
                e.prove(sx.term(nw.shape[0]) == rows, "shape/w")
                e.prove(z3.Implies(inr, sxl.is_value(nw.read(row, 0), w.at(r.t + past - 1))), "weights")
        else:
            e.prove(nw is None, "weights/none")
        if cfg["same"]:
            pad = z3.And(r.t >= 0, r.t < first)
            for c in range(ncol + past):
                e.prove(z3.Implies(pad, sxl.is_nan(nX.read(r.t, c))), "pad/X")
            for t in range(delay2 - 1):
                e.prove(z3.Implies(pad, sxl.is_nan(ny.read(r.t, t))), "pad/y")
        # every index read is inside the series: implied by the shape rule obligations emitted
        # at each slice assignment (a clamped slice is shorter than its destination)

    eng = sx.Engine(name=f"C20{cfg}")
    eng.stop_on_cex = False
    eng.explore(h)
    viol = []
    seen = set()
    for c in eng.cex:
        sig = f"{c.label}@{cfg['via']}({'same_rows=True' if cfg['same'] else 'same_rows=False'})"
        if sig in seen:
            continue
        seen.add(sig)
        ok, obs = replay_frame(cfg, c.inputs, c.label)
        viol.append(harness.violation(c.label, sig, cfg, c.inputs, obs, ok))
    # concrete validation of the oracle's reading on the real code (n = first+3)
    validated = 0
    if not viol:
        okc, _ = replay_frame(cfg, dict(n=past + delay2 + 2), "validate")
        validated = 0 if okc else 1
    return dict(stats=eng.stats.as_dict(), violations=viol, validated=validated, notes=sorted(eng.remarks))


def _expected(cfg, n, y, X, w):
    past, delay2, ncol = cfg["past"], cfg["delay2"], cfg["ncol"]
    nrow = n - delay2 - past + 2
    first = delay2 + past - 2 if cfg["same"] else 0
    rows = n if cfg["same"] else nrow
    eX = numpy.full((rows, ncol + past), numpy.nan)
    ey = numpy.full((rows, delay2 - 1), numpy.nan)
    ew = numpy.full((rows,), numpy.nan) if cfg["w"] else None
    for r in range(nrow):
        for j in range(past):
            eX[first + r, ncol + j] = y[r + j]
        for c in range(ncol):
            eX[first + r, c] = X[r + past - 1, c]
        for t in range(delay2 - 1):
            ey[first + r, t] = y[r + past + t]
        if cfg["w"]:
            ew[first + r] = w[r + past - 1]
    return eX, ey, ew


def replay_frame(cfg, inputs, label):
    n = int(inputs.get("n", cfg["past"] + cfg["delay2"] + 2))
    n = max(n, cfg["past"] + cfg["delay2"] - 1)
    ncol = cfg["ncol"]
    y = numpy.arange(n) * 1.0 + 100
    X = (numpy.arange(n * ncol).reshape(n, ncol) * 1.0 + 1000) if ncol else None
    w = (numpy.arange(n) * 1.0 + 7) if cfg["w"] else None
    if "dtype" in label:
        # a series with fractional values next to integer-typed exogenous features and weights
        y = y + 0.25
        X = X.astype(numpy.int64) if X is not None else None
        w = w.astype(numpy.int64) if w is not None else None
    try:
        nX, ny, nw = _call(cfg, X, y, w)
    except Exception as e:
        return True, f"n={n}: raised {type(e).__name__}: {e}"
    eX, ey, ew = _expected(cfg, n, y, X, w)
    for name, got, exp in (("X", nX, eX), ("y", ny, ey), ("weights", nw, ew)):
        if exp is None:
            if got is not None:
                return True, f"n={n}: weights should be None"
            continue
        if got is None:
            return True, f"n={n}: {name} is None"
        got = numpy.asarray(got, dtype=float)
        if got.shape != exp.shape:
            return True, dict(n=n, what=name, shape=list(got.shape), expected=list(exp.shape))
        if name == "weights" and cfg["same"]:
            first = cfg["delay2"] + cfg["past"] - 2
            got, exp = got[first:], exp[first:]  # the padding value of weights is not specified
        if not numpy.array_equal(got, exp, equal_nan=True):
            bad = numpy.argwhere(~((got == exp) | (numpy.isnan(got) & numpy.isnan(exp))))[0].tolist()
            return True, dict(n=n, what=name, cell=bad, got=float(got[tuple(bad)]), expected=float(exp[tuple(bad)]), y="arange(n)+100", w="arange(n)+7")
    return False, "real code agrees with the oracle"


# ------------------------------------------------------------------ ts_mape (SX)


class _NP(sx.Conversions):
    """numpy proxy for ts_mape: isnan / ma on object arrays"""

    def __init__(self):
        self._real = numpy

    def __getattr__(self, n):
        return getattr(numpy, n)

    def isnan(self, a):
        a = numpy.asarray(a)
        if a.dtype != object:
            return numpy.isnan(a)
        out = numpy.zeros(a.shape, dtype=bool)
        for i in numpy.ndindex(a.shape):
            v = a[i]
            out[i] = isinstance(v, float) and v != v
        return out


def run_mape(cfg):
    metrics = loader.load("timeseries.metrics")
    n, scen, weighted = cfg["n"], cfg["scenario"], cfg["weighted"]

    def h(e):
        y = e.reals("y", n)
        w = None
        if weighted:
            w = e.reals("w", n)
            for i in range(n):
                e.assume(w[i] > 0)
        if scen == "naive":
            pred = sx.sarr([float("nan")] + [y[i - 1] for i in range(1, n)])
        else:
            p = e.reals("p", n)
            pred = sx.sarr([float("nan") if cfg["nan"][i] else p[i] for i in range(n)])
        old = metrics.numpy
        metrics.numpy = _NP()
        try:
            res = metrics.ts_mape(y, pred, sample_weight=w)
        finally:
            metrics.numpy = old
        if res is numpy.ma.masked:
            # every compared pair is masked (NaN predictions everywhere): the ratio is undefined
            e.prove(all(cfg["nan"][i] or cfg["nan"][i - 1] for i in range(1, n)) if scen == "free" else n <= 2, "mape/undefined-only-when-all-masked")
            return
        if isinstance(res, float) and res == float("inf"):
            e.prove(True, "mape>=0")
            return
        e.prove(res >= 0, "mape>=0")
        if scen == "naive":
            # the naive previous-value forecast: 1 unless the compared part of the series is constant
            const = z3.And(*[y[i].t == y[i - 1].t for i in range(2, n)]) if n > 2 else z3.BoolVal(True)
            e.prove(z3.Or(const, sx.term(res) == 1), "mape(naive)=1")

    eng = sx.Engine(name=f"C20{cfg}")

    def on_exc(e, exc):
        e.prove(False, "ts_mape/raises", detail=f"{type(exc).__name__}: {exc}")

    eng.explore(h, on_exception=on_exc)
    viol = []
    for c in eng.cex[:1]:
        ok, obs = replay_mape(cfg, c.inputs, c.label)
        viol.append(harness.violation(c.label, c.label if c.label.startswith("ts_mape") else f"ts_mape/{c.label}", cfg, c.inputs, obs, ok))
    return dict(stats=eng.stats.as_dict(), violations=viol)


def replay_mape(cfg, inputs, label):
    metrics = loader.load("timeseries.metrics")
    n = cfg["n"]
    y = numpy.array([float(inputs.get(f"y_{i}", 0)) for i in range(n)])
    if cfg["scenario"] == "naive":
        pred = numpy.array([numpy.nan] + list(y[:-1]))
    else:
        pred = numpy.array([numpy.nan if cfg["nan"][i] else float(inputs.get(f"p_{i}", 0)) for i in range(n)])
    w = numpy.array([float(inputs.get(f"w_{i}", 1)) for i in range(n)]) if cfg["weighted"] else None
    try:
        res = metrics.ts_mape(y, pred, sample_weight=w)
    except Exception as e:
        return True, dict(y=y.tolist(), pred=[None if v != v else v for v in pred.tolist()], raised=f"{type(e).__name__}: {e}")
    res = float(res)
    if not res >= 0:
        return True, dict(y=y.tolist(), result=res)
    if cfg["scenario"] == "naive" and len(set(y[1:].tolist())) > 1 and abs(res - 1) > 1e-9:
        return True, dict(y=y.tolist(), result=res, expected=1.0)
    return False, f"result {res}"


def mape_configs(tier):
    out = []
    nmax = 5 if tier == "quick" else 6
    for n in range(2, nmax + 1):
        for weighted in (False, True):
            out.append(dict(kind="mape", n=n, scenario="naive", weighted=weighted, nan=None))
    for n in range(2, (4 if tier == "quick" else 5) + 1):
        for nan in itertools.product((False, True), repeat=n):
            out.append(dict(kind="mape", n=n, scenario="free", weighted=False, nan=list(nan)))
    return out


def run_config(cfg):
    return run_frame(cfg) if cfg["kind"] == "frame" else run_mape(cfg)


def replay(cfg, inputs, label):
    return replay_frame(cfg, inputs, label) if cfg["kind"] == "frame" else replay_mape(cfg, inputs, label)


def run(ctx, rep):
    rep.engine = "SXL (frames, symbolic length) + SX (ts_mape)"
    rep.add_functions("timeseries.utils", ["build_ts_X_y"])
    rep.add_functions("timeseries.base", ["BaseTimeSeries.__init__", "BaseTimeSeries._base_fit_predict", "BaseTimeSeries._fit_preprocessing"])
    rep.add_functions("timeseries.metrics", ["ts_mape"])
    fc = configs(ctx.tier)
    mc = mape_configs(ctx.tier)
    rep.bounds = dict(
        series_length="UNBOUNDED (symbolic n >= past+delay2-1) for build_ts_X_y/_base_fit_predict",
        past=f"1..{max(c['past'] for c in fc)}", delay2=f"2..{max(c['delay2'] for c in fc)}", ncol="0..2", delay1=1, use_all_past=False,
        ts_mape=f"n <= {max(c['n'] for c in mc)}, all NaN patterns of the prediction for n <= {max(c['n'] for c in mc if c['scenario']=='free')}",
    )
    rep.assumptions = [
        "caller series are finite numbers (uninterpreted functions of the time index); NaN only as padding",
        "NumPy slice clamping and the slice-assignment shape rule are modelled exactly (vf/sxl.py); a shape mismatch is reported as the ValueError the real code would raise",
        "check_ts_X_y stubbed to a no-op in _base_fit_predict (dtype assertions only); preprocessing=None",
        "padding value of the same_rows weights is not constrained (only rows >= first are compared)",
        "reals, not floats, in ts_mape; sample weights > 0",
    ]
    rep.outside = ["use_all_past=True", "delay1 != 1", "series shorter than past+delay2-1", "float rounding in ts_mape"]
    res = harness.pmap(MOD, "run_config", fc)
    rep.absorb(res, layer="frames (SXL, all n)")
    res = harness.pmap(MOD, "run_config", mc)
    rep.absorb(res, layer="ts_mape (SX)")

    # vacuity twin: "the first target is the newest lag" must be refuted
    def twin(e):
        utils = loader.load("timeseries.utils")
        base = loader.load("timeseries.base")
        n = e.int("n")
        e.assume(n >= 3)
        r = e.int("r")
        y = sxl.LInput("y", n)
        old = utils.numpy
        utils.numpy = sxl.NumpyProxy(numpy)
        try:
            nX, ny, nw = utils.build_ts_X_y(base.BaseTimeSeries(past=2), None, y, None)
        finally:
            utils.numpy = old
        inr = z3.And(r.t >= 0, r.t < n.t - 2)
        e.prove(z3.Implies(inr, sxl.is_value(ny.read(r.t, 0), y.at(r.t + 1))), "twin")

    eng = sx.Engine(name="C20-twin")
    eng.explore(twin)
    rep.vacuity.append(dict(twin="target == newest lag (false)", refuted=bool(eng.cex)))
    if not eng.cex:
        rep.error("vacuity twin was not refuted")


