"""C06 -- KMeansL1L2: L1 is self-consistent in Manhattan geometry, L2 is exactly KMeans.

SX, dual-mode scenarios.  The real _kmeans_single_lloyd (its loop, max_iter unrolled),
_init_centroids ('random' and array init), _centers_dense (M-step: medians), _labels_inertia /
_labels_inertia_precompute_dense (E-step glue), _tolerance, KMeansL1L2._fit_l1 (best of n_init),
_predict_l1, _transform_l1 and the norm dispatch run on a symbolic data matrix; tie patterns and
duplicate rows arise by themselves (equalities are satisfiable).  scikit-learn's
pairwise_distances_argmin_min / manhattan_distances are replaced by an SX model (sum |x-c|,
first argmin), cross-checked against the real functions on concrete inputs in every run; the
random state hands out symbolic draws (realised: every permutation).  Obligations after the
single run and after _fit_l1: labels_[i] in argmin_c |x_i - c|_1 for the RETURNED centres;
inertia_ = sum_i min_c |x_i - c|_1; every centre coordinate is a number inside the coordinate
range of the data; no exception when X has >= k distinct rows; predict(X_train) = labels_,
transform = Manhattan distance matrix.  norm='L2': fit/predict/transform call the scikit-learn
parent with the caller's arguments unchanged and return its result (delegation identity).
In concrete mode (replay) the real scikit-learn functions are used.
"""
import numpy
import z3

from .. import harness, loader, sx

MOD = "vf.props.c06"


def manhattan_argmin_min(X, Y, metric="manhattan", **kw):
    """SX model of sklearn.metrics.pairwise_distances_argmin_min(metric='manhattan'): first argmin"""
    assert metric == "manhattan", metric
    labels, mind = [], []
    for i in range(X.shape[0]):
        best, bd = None, None
        for c in range(Y.shape[0]):
            dist = sx.ssum([abs(X[i, j] - Y[c, j]) for j in range(X.shape[1])])
            if best is None or dist < bd:
                best, bd = c, dist
        labels.append(best)
        mind.append(bd)
    return numpy.array(labels, dtype=numpy.int64), sx.sarr(mind)


def manhattan_matrix(X, Y):
    out = numpy.empty((X.shape[0], Y.shape[0]), dtype=object)
    for i in range(X.shape[0]):
        for c in range(Y.shape[0]):
            out[i, c] = sx.ssum([abs(X[i, j] - Y[c, j]) for j in range(X.shape[1])])
    return out.view(sx.SArr)


class _Unused:
    """placeholder for a value the code computes but never uses; any use is an engine error"""

    def __getattr__(self, k):
        raise sx.SXError("the X_sort_index placeholder was used")

    def __getitem__(self, k):
        raise sx.SXError("the X_sort_index placeholder was used")


class _NP(sx.Conversions):
    def __getattr__(self, k):
        return getattr(numpy, k)

    # result buffers a rewritten predict / transform may preallocate
    def zeros(self, shape, dtype=None, **kw):
        return sx.typed_empty(shape, dtype, fill=0)

    def empty(self, shape, dtype=None, **kw):
        return sx.typed_empty(shape, dtype)

    def full(self, shape, fill_value, dtype=None, **kw):
        return sx.typed_empty(shape, dtype, fill=fill_value)

    def argsort(self, a, axis=-1, **kw):
        if isinstance(a, numpy.ndarray) and a.dtype == object and a.ndim == 2 and axis == 0:
            return _Unused()  # X_sort_index: never used by _centers_dense (forking over it would only multiply paths)
        return numpy.argsort(a, axis=axis, **kw)

    def median(self, a, axis=None, **kw):
        a = numpy.asarray(a)
        if a.shape[0] == 0:
            return numpy.full(a.shape[1:], numpy.nan)  # what NumPy answers for an empty slice
        return numpy.median(a, axis=axis, **kw)


class Rnd:
    def __init__(self, C):
        self.C, self.k = C, 0

    def permutation(self, n):
        left = list(range(n))
        out = []
        for i in range(n):
            j = self.C.choice(f"perm{self.k}_{i}", len(left))
            out.append(left.pop(j))
        self.k += 1
        return numpy.array(out)

    def randint(self, lo, hi=None, size=None):
        if size is None:
            self.k += 1
            return 7
        return numpy.arange(size) + 11

    random_sample = None


def _data(C, n, d, dup):
    if C.symbolic:
        X = sx.cur().reals("x", n, d)
    else:
        X = numpy.array([[float(C.inputs.get(f"x_{i}_{j}", (i * 5 + j * 3) % 7 + 0.25 * i)) for j in range(d)] for i in range(n)])
    return X


def _distinct_rows_at_least(C, X, k):
    """documented precondition: at least k distinct points"""
    n = X.shape[0]
    if C.symbolic:
        # exists k pairwise distinct rows: for small n, encode as a disjunction over k-subsets
        import itertools

        opts = []
        for sub in itertools.combinations(range(n), k):
            conj = []
            for a, b in itertools.combinations(sub, 2):
                conj.append(z3.Or(*[sx.term(X[a, j]) != sx.term(X[b, j]) for j in range(X.shape[1])]))
            opts.append(z3.And(*conj) if conj else z3.BoolVal(True))
        C.assume(sx.SymBool(z3.Or(*opts)))
    else:
        C.assume(len(set(map(tuple, X.tolist()))) >= k)


def _check_solution(C, X, labels, inertia, centers, k, tag, range_of=None):
    n, d = X.shape
    labels = [int(v) for v in labels]
    C.true(all(0 <= v < k for v in labels) and len(labels) == n, tag + "labels-valid")
    finite = True
    for c in range(k):
        for j in range(d):
            v = centers[c, j]
            isnum = not (isinstance(v, (float, numpy.floating)) and v != v)
            C.true(isnum, tag + "centre-is-a-number(not NaN)", detail=(c, j))
            finite = finite and isnum
    if not finite:
        return
    for c in range(k):
        if range_of is not None and c not in range_of:
            continue  # a caller-supplied centre that never attracts a point stays where the caller put it
        for j in range(d):
            lo, hi = X[:, j].min(), X[:, j].max()
            C.true(centers[c, j] >= lo, tag + "centre-inside-the-coordinate-range", detail=(c, j))
            C.true(centers[c, j] <= hi, tag + "centre-inside-the-coordinate-range", detail=(c, j))
    tot = 0
    for i in range(n):
        dist = [sx.ssum([abs(X[i, j] - centers[c, j]) for j in range(d)]) for c in range(k)]
        for c in range(k):
            C.true(dist[labels[i]] <= dist[c], tag + "label-is-a-Manhattan-nearest-centre", detail=(i, c))
        tot = tot + dist[labels[i]]
    C.eq(inertia, tot, tag + "inertia=sum-of-distances-to-the-assigned-centres")


def sc_lloyd(cfg):
    km = loader.load("mlmodel.kmeans_l1")
    k22 = loader.load("mlmodel._kmeans_022")
    n, d, k = cfg["n"], cfg["d"], cfg["k"]

    def scenario(C):
        X = _data(C, n, d, False)
        _distinct_rows_at_least(C, X, k)
        rnd = Rnd(C)
        if cfg["init"] == "array":
            idx = [C.choice(f"init{c}", n) for c in range(k)]
            C.assume(len(set(idx)) == k)
            init = X[idx].copy() if not C.symbolic else sx.sarr([[X[i, j] for j in range(d)] for i in idx])
            if not C.symbolic:
                init = numpy.array(init, dtype=float)
        elif cfg["init"] == "free":
            # centres supplied by the caller: anywhere, also outside the bounding box of the data
            init = sx.cur().reals("c0", k, d) if C.symbolic else numpy.array([[float(C.inputs.get(f"c0_{c}_{j}", c * 3 - 1)) for j in range(d)] for c in range(k)])
        else:
            init = "random"
        tol = 0 if cfg["tol0"] else (sx.cur().real("tol") if C.symbolic else float(C.inputs.get("tol", 0.5)))
        if C.symbolic and not cfg["tol0"]:
            C.assume(tol >= 0)
        ones = numpy.ones(n)
        stubs_kl = dict(check_random_state=lambda s: rnd, _check_sample_weight=lambda sw, X: ones)
        stubs_22 = dict(_check_sample_weight=lambda sw, X: ones)
        if C.symbolic:
            stubs_kl.update(numpy=_NP())
            stubs_22.update(pairwise_distances_argmin_min=manhattan_argmin_min)
        with harness.patched(km, **stubs_kl), harness.patched(k22, **stubs_22):
            labels, inertia, centers, n_iter = km._kmeans_single_lloyd("L1", X, None, k, max_iter=cfg["max_iter"], init=init, tol=tol, random_state=0)
        C.true(1 <= n_iter <= cfg["max_iter"], "n_iter<=max_iter")
        _check_solution(C, X, labels, inertia, centers, k, "lloyd/", range_of=set(int(v) for v in labels) if cfg["init"] == "free" else None)

    return scenario


def sc_fit(cfg):
    km = loader.load("mlmodel.kmeans_l1")
    k22 = loader.load("mlmodel._kmeans_022")
    n, d, k = cfg["n"], cfg["d"], cfg["k"]

    def scenario(C):
        X = _data(C, n, d, False)
        _distinct_rows_at_least(C, X, k)
        rnd = Rnd(C)
        ones = numpy.ones(n)
        est = km.KMeansL1L2(n_clusters=k, init="random", n_init=cfg["n_init"], max_iter=cfg["max_iter"], norm="L1", random_state=3)
        params = est.get_params()
        stubs_kl = dict(check_random_state=lambda s: rnd, _check_sample_weight=lambda sw, X: ones)
        stubs_22 = dict(_check_sample_weight=lambda sw, X: ones)
        if C.symbolic:
            stubs_kl.update(numpy=_NP(), check_array=lambda X, **kw: X, manhattan_distances=manhattan_matrix, pairwise_distances_argmin_min=manhattan_argmin_min, check_is_fitted=lambda s: None)
            stubs_22.update(pairwise_distances_argmin_min=manhattan_argmin_min)
        with harness.patched(km, **stubs_kl), harness.patched(k22, **stubs_22):
            r = est.fit(X)
            C.true(r is est, "fit-returns-self")
            _check_solution(C, X, est.labels_, est.inertia_, est.cluster_centers_, k, "fit/")
            if C.symbolic:
                est._check_test_data = lambda Xa: Xa
            pred = est.predict(X)
            C.true([int(v) for v in pred] == [int(v) for v in est.labels_], "predict(X_train)=labels_")
            T = est.transform(X)
            C.true(numpy.shape(T) == (n, k), "transform-shape")
            for i in range(n):
                for c in range(k):
                    C.eq(T[i, c], sx.ssum([abs(X[i, j] - est.cluster_centers_[c, j]) for j in range(d)]), "transform=Manhattan-distances")
        C.true(est.get_params() == params, "hyper-parameters-unchanged")

    return scenario


def sc_batch(cfg):
    """predict / transform (L1) of two symbolic rows at the end of a 1030-row batch (fixed numeric filler rows,
    centres set by hand: no fit) == the same rows alone: beyond any row-blocking size in sight"""
    km = loader.load("mlmodel.kmeans_l1")

    def scenario(C):
        k, d, N = 3, 1, 1030
        est = km.KMeansL1L2(n_clusters=k, norm="L1")
        est.cluster_centers_ = numpy.array([[10.0], [20.0], [0.0]])  # not in sorted order
        if C.symbolic:
            rows = sx.cur().reals("q", 2, d)
        else:
            rows = numpy.array([[float(C.inputs.get(f"q_{i}_0", 3.0 + 9 * i))] for i in range(2)])
        big = numpy.empty((N, d), dtype=object if C.symbolic else float)
        for r in range(N - 2):
            big[r, 0] = float((r * 7) % 23) - 1.0
        big[N - 2], big[N - 1] = rows[0], rows[1]
        if C.symbolic:
            big = big.view(sx.SArr)
        stubs = dict(check_is_fitted=lambda s_: None)
        if C.symbolic:
            stubs.update(numpy=_NP(), pairwise_distances_argmin_min=manhattan_argmin_min, manhattan_distances=manhattan_matrix)
            est._check_test_data = lambda Xa: Xa
        else:
            est._n_threads, est.n_features_in_ = 1, d
        with harness.patched(km, **stubs):
            Tb, pb = est.transform(big), est.predict(big)
            C.true(numpy.shape(Tb) == (N, k) and len(pb) == N, "batch/shapes")
            for i in range(2):
                T1, p1 = est.transform(rows[i : i + 1]), est.predict(rows[i : i + 1])
                for c in range(k):
                    want = sx.ssum([abs(rows[i, j] - est.cluster_centers_[c, j]) for j in range(d)])
                    C.eq(Tb[N - 2 + i, c], want, "batch/transform(row-at-the-end-of-1030-rows)=Manhattan-distances", detail=(i, c))
                    C.eq(T1[0, c], want, "batch/transform(row-alone)=Manhattan-distances", detail=(i, c))
                C.true(int(pb[N - 2 + i]) == int(p1[0]), "batch/predict(row-at-the-end-of-1030-rows)==predict(row-alone)", detail=i)
            for r in (0, 1, 1023, 1024, 1025):
                for c in range(k):
                    C.eq(Tb[r, c], abs(big[r, 0] - est.cluster_centers_[c, 0]), "batch/transform(row-at-the-end-of-1030-rows)=Manhattan-distances", detail=(r, c))

    return scenario


def sc_l2(cfg):
    km = loader.load("mlmodel.kmeans_l1")

    def scenario(C):
        calls = []
        est = km.KMeansL1L2(n_clusters=2, norm="L2", n_init=1, random_state=0)
        X = numpy.arange(8.0).reshape(4, 2)
        w = numpy.arange(4.0) + 1
        token = object()

        def rec(name):
            def f(self, *a, **k):
                calls.append((name, self, a, k))
                return token

            return f

        # "the same parameters": what the constructor is given is what KMeans.fit finds on the object
        # (symbolic values: any k, n_init, max_iter, tol, seed)
        given = dict(n_clusters=C.int("p_k", 1, 9), n_init=C.int("p_n_init", 1, 9), max_iter=C.int("p_max_iter", 1, 500), tol=C.real("p_tol"), random_state=C.int("p_seed", 0, 99), init="random", verbose=0, copy_x=True, algorithm="lloyd")
        est2 = km.KMeansL1L2(norm="L2", **given)
        seen_params = {}

        def rec_params(self, *a, **k):
            seen_params.update({key: getattr(self, key, None) for key in given})
            return self

        with harness.patched(km.KMeans, fit=rec_params):
            est2.fit(X)
        got = est2.get_params()
        for key, val in given.items():
            if isinstance(val, (str, bool)):
                C.true(seen_params.get(key) == val and got.get(key) == val, "L2-KMeans-runs-with-the-constructor's-parameters", detail=key)
            else:
                C.eq(seen_params.get(key), val, "L2-KMeans-runs-with-the-constructor's-parameters", detail=key)
                C.eq(got.get(key), val, "get_params-reports-the-constructor's-parameters", detail=key)
        with harness.patched(km.KMeans, fit=rec("fit"), predict=rec("predict"), transform=rec("transform")):
            r = est.fit(X, None, w)
            C.true(r is est, "fit-returns-self")
            C.true(len(calls) == 1 and calls[0][1] is est and calls[0][3].get("X", calls[0][2][0] if calls[0][2] else None) is X and (calls[0][3].get("sample_weight") is w or (len(calls[0][2]) > 2 and calls[0][2][2] is w)), "L2-fit-delegates-to-KMeans-with-the-caller's-arguments")
            p = est.predict(X)
            C.true(p is token and calls[-1][0] == "predict" and calls[-1][2][0] is X, "L2-predict-is-KMeans.predict")
            t = est.transform(X)
            C.true(t is token and calls[-1][0] == "transform" and calls[-1][2][0] is X, "L2-transform-is-KMeans.transform")
        # history: the same object trained with norm='L1', switched to 'L2' (set_params) and trained again
        # must dispatch on its CURRENT norm
        import warnings as _w

        with _w.catch_warnings():
            _w.simplefilter("ignore")
            h = km.KMeansL1L2(n_clusters=2, norm="L1", n_init=1, random_state=0).fit(numpy.array([[0.0], [1.0], [5.0], [6.0]]))
        h.set_params(norm="L2")
        del calls[:]
        with harness.patched(km.KMeans, fit=rec("fit"), predict=rec("predict"), transform=rec("transform")):
            h.fit(X)
            C.true([c[0] for c in calls] == ["fit"], "L2-after-L1-on-the-same-object:fit-delegates-to-KMeans")
            C.true(h.predict(X) is token and h.transform(X) is token, "L2-after-L1-on-the-same-object:predict/transform-delegate-to-KMeans")
        # and on real data: identical to scikit-learn's KMeans with the same parameters and seed
        from sklearn.cluster import KMeans

        rng = numpy.random.RandomState(5)
        Xr = rng.randn(30, 2)
        tol_r = 0.05  # a non-default tolerance: Lloyd stops earlier than with 1e-4
        a = km.KMeansL1L2(n_clusters=3, norm="L2", n_init=2, random_state=4, tol=tol_r).fit(Xr)
        b = KMeans(n_clusters=3, n_init=2, random_state=4, tol=tol_r).fit(Xr)
        C.true(numpy.array_equal(a.labels_, b.labels_) and numpy.array_equal(a.cluster_centers_, b.cluster_centers_) and bool(numpy.isclose(a.inertia_, b.inertia_, rtol=1e-12)) and numpy.array_equal(a.predict(Xr), b.predict(Xr)) and numpy.array_equal(a.transform(Xr), b.transform(Xr)), "L2-identical-to-KMeans-on-real-data")

    return scenario


SCEN = dict(lloyd=sc_lloyd, fit=sc_fit, l2=sc_l2, batch=sc_batch)


def run_config(cfg):
    r = harness.run_scenario(SCEN[cfg["kind"]](cfg), f"C06{cfg}", cfg=cfg, sig=lambda l: l, on_exception_label="raises-on-valid-data")
    if cfg["kind"] == "lloyd" and cfg.get("validate"):
        # cross-check of the SX model of the Manhattan argmin against the real scikit-learn function
        from sklearn.metrics.pairwise import pairwise_distances_argmin_min

        rng = numpy.random.RandomState(1)
        ok = 0
        for _ in range(20):
            X = rng.randint(0, 4, size=(5, 2)).astype(float)
            Y = rng.randint(0, 4, size=(3, 2)).astype(float)
            l1, d1 = pairwise_distances_argmin_min(X, Y, metric="manhattan")
            eng = sx.Engine(name="validate")
            box = {}

            def h(e):
                box["r"] = manhattan_argmin_min(X.astype(object), Y.astype(object))

            eng.explore(h)
            l2, d2 = box["r"]
            if list(l1) == list(l2) and numpy.allclose(d1, numpy.array([float(v) for v in d2])):
                ok += 1
        r["validated"] = ok
        if ok != 20:
            r.setdefault("errors", []).append("SX model of pairwise_distances_argmin_min(manhattan) disagrees with scikit-learn")
    return r


def replay(cfg, inputs, label):
    return harness.replay_scenario(SCEN[cfg["kind"]](cfg), inputs, label, "raises-on-valid-data")


def configs(tier):
    out = []
    shapes = [(3, 1, 2, 2)] if tier == "quick" else [(3, 1, 2, 2), (4, 1, 2, 2), (3, 2, 2, 2), (3, 1, 3, 2), (4, 1, 3, 2)]
    first = True
    for n, d, k, mi in shapes:
        for init in ("random", "array"):
            for tol0 in (True, False):
                out.append(dict(kind="lloyd", n=n, d=d, k=k, max_iter=mi, init=init, tol0=tol0, validate=first))
                first = False
    if tier == "quick":
        out.append(dict(kind="lloyd", n=3, d=2, k=2, max_iter=2, init="array", tol0=True))  # two centres can move in opposite directions
    out.append(dict(kind="lloyd", n=2, d=1, k=2, max_iter=2, init="random", tol0=True))
    for mi, tol0 in ((1, True), (2, False)):
        out.append(dict(kind="lloyd", n=3, d=1, k=2, max_iter=mi, init="free", tol0=tol0))
    out.append(dict(kind="lloyd", n=3, d=1, k=1, max_iter=2, init="random", tol0=True))
    out.append(dict(kind="fit", n=3, d=1, k=2, max_iter=1 if tier == "quick" else 2, n_init=2))
    out.append(dict(kind="l2"))
    out.append(dict(kind="batch"))
    return out


def run(ctx, rep):
    rep.add_functions("mlmodel.kmeans_l1", ["_init_centroids", "_centers_dense", "_kmeans_single_lloyd", "_labels_inertia", "_tolerance", "KMeansL1L2.__init__", "KMeansL1L2.fit", "KMeansL1L2._fit_l1", "KMeansL1L2.predict", "KMeansL1L2._predict_l1", "KMeansL1L2.transform", "KMeansL1L2._transform_l1"])
    rep.add_functions("mlmodel._kmeans_022", ["_labels_inertia_precompute_dense"])
    cfgs = configs(ctx.tier)
    rep.bounds = dict(shapes="(n, d, k, max_iter): " + str(sorted(set((c["n"], c["d"], c["k"], c["max_iter"]) for c in cfgs if c["kind"] == "lloyd"))), init=["random (every permutation)", "array (every choice of k distinct rows)", "array of arbitrary symbolic centres (n=3, k=2)"], n_init=2, tol=["0", "symbolic >= 0"])
    rep.assumptions = [
        "pairwise_distances_argmin_min(metric='manhattan') and manhattan_distances are an SX model (sum |x-c|, first argmin), cross-checked against scikit-learn on 20 concrete inputs in this run; check_array is the identity on the symbolic matrix; _check_sample_weight answers unit weights",
        "the random state's draws are symbolic (realised: every permutation); seeds handed to the single runs are opaque",
        "the unused X_sort_index (argsort of X along axis 0) is a placeholder whose use would be an engine error",
        "precondition: X has at least k distinct rows; reals not floats (float32 rounding outside)",
        "L2: delegation identity (KMeans.fit/predict/transform receive the caller's arguments, their result is returned) plus one concrete comparison with scikit-learn's KMeans",
    ]
    rep.outside = ["k-means++ seeding", "equality with scikit-learn's KMeans beyond the delegation identity", "sample weights (non uniform weights raise by design)", "sparse input"]
    rep.absorb(harness.pmap(MOD, "run_config", cfgs), layer="scenarios")

    def twin(e):
        a, b, c = e.real("a"), e.real("b"), e.real("c")
        e.prove(abs(a - c) <= abs(a - b), "twin")

    eng = sx.Engine(name="C06-twin")
    eng.explore(twin)
    rep.vacuity.append(dict(twin="the first centre is always a nearest one", refuted=bool(eng.cex)))
    if not eng.cex:
        rep.error("vacuity twin was not refuted")
