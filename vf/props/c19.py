"""C19 -- CategoriesToIntegers encodes each category by its own indicator and nothing else.

SX (path-complete enumeration by realisation): every cell of a small training table and of a
small table to transform is a symbolic index into a pool of values (two seen categories, a
missing value, and -- at transform time -- a category unseen during fit), realised by the
engine so that EVERY such pair of tables is explored; the real fit/_build_schema/transform run
on real pandas frames built from them; options (single, skip_errors, remove) are enumerated.
The oracle is written independently from the property text.  The solver's share here is the
exhaustive, duplicate-free enumeration of the tables (the code only uses the values as
dictionary keys), not arithmetic.
"""
import math

import numpy
import pandas

from .. import harness, loader, sx

MOD = "vf.props.c19"

POOL = {"shape": ["ci", "sq"], "size": [3, 12]}  # ints whose str() order differs from their numeric order
UNSEEN = {"shape": "zz", "size": 7}
COLS = ["shape", "size"]


def _frame(cells, nrows, index):
    data = {c: pandas.Series([cells[(i, c)] for i in range(nrows)], dtype=object, index=index) for c in COLS}
    data["num"] = pandas.Series([10.5 + i for i in range(nrows)], index=index)
    return pandas.DataFrame(data, index=index)


def _missing(v):
    return v is None or (isinstance(v, float) and math.isnan(v))


FALSY = {"shape": ["", "sq"], "size": [0, 12]}  # categories that are falsy in Python: the empty string, the code 0
OVERLAP = {"shape": ["b", "c"], "size": ["a", "b"]}  # two columns sharing a value that has another rank in each


def scenario_for(cfg):
    m = loader.load("mlmodel.categories_to_integers")
    ntr, nte = cfg["train_rows"], cfg["test_rows"]
    single, skip, remove = cfg["single"], cfg["skip_errors"], cfg["remove"]
    POOL = FALSY if cfg.get("pool") == "falsy" else (OVERLAP if cfg.get("pool") == "overlap" else globals()["POOL"])
    UNSEEN = {"shape": "zz", "size": "c"} if cfg.get("pool") == "overlap" else globals()["UNSEEN"]  # 'c' is known to the other column only

    def scenario(C):
        fixed = cfg.get("fixed") or {}
        choose = lambda name, n: fixed[name] if name in fixed else C.choice(name, n)  # noqa: E731
        train = {}
        for i in range(ntr):
            for c in COLS:
                opts = POOL[c] + ([None] if cfg["train_missing"] else [])
                train[(i, c)] = opts[choose(f"tr_{i}_{c}", len(opts))]
        test = {}
        for i in range(nte):
            for c in COLS:
                opts = POOL[c] + [None, UNSEEN[c]]
                test[(i, c)] = opts[choose(f"te_{i}_{c}", len(opts))]
        Xtr = _frame(train, ntr, index=[f"r{i}" for i in range(ntr)])
        # row labels of the table to transform: distinct, or repeated (chunks concatenated without ignore_index)
        Xte = _frame(test, nte, index=["t5"] * nte if cfg.get("dup_index") else [f"t{i * 2 + 5}" for i in range(nte)])
        Xte0 = Xte.copy()
        if cfg.get("via_set_params"):
            # the policy for unseen categories is a hyper-parameter like any other: set after construction
            est = m.CategoriesToIntegers(columns=list(COLS), remove=remove, skip_errors=not skip, single=single)
            est.set_params(skip_errors=skip)
        else:
            est = m.CategoriesToIntegers(columns=list(COLS), remove=remove, skip_errors=skip, single=single)
        if cfg.get("refit"):
            # history: the object was fitted on another table (other categories) and used before
            prev = {(0, "shape"): "zz", (0, "size"): 7, (1, "shape"): POOL["shape"][1], (1, "size"): POOL["size"][0]}
            P = _frame(prev, 2, index=["p0", "p1"])
            est.fit(P)
            est.transform(P)
        r = est.fit(Xtr)
        C.true(r is est, "fit-returns-self")
        if cfg.get("permute_cols"):
            # the table to transform lists its columns in another order than the training table
            Xte = Xte[["num", "size", "shape"]]
            Xte0 = Xte.copy()
        cats = {c: sorted(set(v for (i, cc), v in train.items() if cc == c and not _missing(v))) for c in COLS}
        kept = {c: [v for v in cats[c] if not (remove and f"{c}={v}" in remove)] for c in COLS}
        removed_hit = any(not _missing(v) and v in cats[c] and v not in kept[c] for (i, c), v in test.items())
        unseen_hit = any(not _missing(v) and v not in cats[c] for (i, c), v in test.items())
        must_raise = (unseen_hit or removed_hit) and not skip
        try:
            out = est.transform(Xte)
        except (ValueError, TypeError) as ex:  # "raises an error"; building the message may itself fail on non-str categories
            C.true(must_raise, "unseen-category-raises-only-when-it-should", detail=str(ex)[:80])
            return
        C.true(not must_raise, "unseen-category-must-raise-without-skip_errors")
        C.true(list(out.index) == list(Xte.index), "rows-keep-order-and-index")
        C.true(Xte.equals(Xte0), "input-frame-untouched")
        C.true(list(out["num"]) == list(Xte["num"]), "numeric-column-unchanged")
        if single:
            for c in COLS:
                for i in range(nte):
                    v = test[(i, c)]
                    got = out[c].iloc[i]
                    if _missing(v) or v not in kept[c]:
                        C.true(_missing(got), "single/no-code-for-missing-or-skipped", detail=(i, c, v))
                    else:
                        C.eq(got, kept[c].index(v), "single/rank-among-sorted-training-categories", detail=(i, c, v))
            return
        names = [f"{c}={v}" for c in COLS for v in kept[c]]
        # the property fixes the NAMES of the indicator columns, not their order
        C.true(sorted(n for n in out.columns if n != "num") == sorted(names), "indicator-columns-named-column=value", detail=list(out.columns))
        if sorted(n for n in out.columns if n != "num") != sorted(names):
            return
        for i in range(nte):
            for c in COLS:
                v = test[(i, c)]
                want = f"{c}={v}" if (not _missing(v) and v in kept[c]) else None
                for v2 in kept[c]:
                    n = f"{c}={v2}"
                    cell = out[n].iloc[i]
                    if n == want:
                        C.true(cell == 1, "own-indicator-is-set", detail=(i, n))
                    else:
                        C.true(not (cell == 1), "no-other-indicator-is-set", detail=(i, n, f"value {v!r}"))

    return scenario


def run_config(cfg):
    return harness.run_scenario(scenario_for(cfg), f"C19{cfg}", sig=lambda l: l + ("/skip_errors" if cfg["skip_errors"] else "") + ("/single" if cfg["single"] else ""), cfg=cfg, on_exception_label="transform-raises-unexpected-exception")


def replay(cfg, inputs, label):
    return harness.replay_scenario(scenario_for(cfg), inputs, label, "transform-raises-unexpected-exception")


def configs(tier):
    out = []
    for single in (False, True):
        for skip in (False, True):
            for remove in (None, ["shape=ci"], ["size=3"]):
                if tier == "quick":
                    if remove == ["size=3"] or (single and remove):
                        continue
                    out.append(dict(train_rows=2, test_rows=2, train_missing=False, single=single, skip_errors=skip, remove=remove, dup_index=(skip and remove is None)))
                else:
                    out.append(dict(train_rows=2, test_rows=2, train_missing=True, single=single, skip_errors=skip, remove=remove))
                    out.append(dict(train_rows=3, test_rows=1, train_missing=True, single=single, skip_errors=skip, remove=remove))
                    if remove is None:
                        out.append(dict(train_rows=2, test_rows=2, train_missing=False, single=single, skip_errors=skip, remove=remove, dup_index=True))
    for single in (False, True):
        out.append(dict(train_rows=2, test_rows=1 if tier == "quick" else 2, train_missing=False, single=single, skip_errors=True, remove=None, pool="falsy"))
        for skip in (False, True):
            out.append(dict(train_rows=2, test_rows=1, train_missing=False, single=single, skip_errors=skip, remove=None, via_set_params=True))
    for single in (False, True):
        out.append(dict(train_rows=2, test_rows=1, train_missing=True, single=single, skip_errors=False, remove=None))  # missing cells in the training table
        out.append(dict(train_rows=2, test_rows=1, train_missing=False, single=single, skip_errors=single, remove=None, pool="overlap"))
    for single in (False, True):
        for hist in ("refit", "permute_cols"):
            out.append(dict(train_rows=2, test_rows=1, train_missing=False, single=single, skip_errors=True, remove=None, **{hist: True}))
    # spread over the cores: the first training row is enumerated here (programs), the rest by the engine
    full = []
    for c in out:
        k = 3 if c["train_missing"] else 2
        for a in range(k):
            for b in range(k):
                full.append(dict(c, fixed={"tr_0_shape": a, "tr_0_size": b}))
    return full


def run(ctx, rep):
    rep.add_functions("mlmodel.categories_to_integers", ["CategoriesToIntegers.__init__", "CategoriesToIntegers.fit", "CategoriesToIntegers._build_schema", "CategoriesToIntegers.transform"])
    cfgs = configs(ctx.tier)
    rep.bounds = dict(training_table="2 (3 thorough) rows x 2 categorical columns (+1 numeric), cells from {2 seen categories [, missing]}", table_to_transform="2 (1) rows x 2 categorical columns, cells from {2 seen, missing, unseen}", options="single x skip_errors x remove in {None, a first-column modality, a second-column modality}", categories="strings in one column, integers (3, 12) in the other")
    rep.assumptions = [
        "real pandas frames (object dtype categorical columns, columns= passed explicitly: pandas 3 no longer infers object dtype for strings, so columns=None auto-detection finds nothing -- an environment fact outside the claim)",
        "an indicator is 'set' when the cell equals 1 (unset cells are NaN in this implementation)",
        "a modality listed in remove= behaves like an unseen category at transform time",
    ]
    rep.outside = ["columns=None auto-detection", "more than 2 categorical columns / 3 rows", "max_cat limit"]
    rep.exhaustive = True
    rep.absorb(harness.pmap(MOD, "run_config", cfgs), layer="all small table pairs")

    def twin(e):
        C = harness.SymC(e)
        k = C.choice("k", 3)
        e.prove(k != 2, "twin")

    eng = sx.Engine(name="C19-twin")
    eng.explore(twin)
    rep.vacuity.append(dict(twin="a realised choice never takes its last value", refuted=bool(eng.cex)))
    if not eng.cex:
        rep.error("vacuity twin was not refuted")
