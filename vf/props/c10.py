"""C10 -- DecisionTreeLogisticRegression is a consistent tree of binary classifiers.

SX, dual-mode scenario.  The real DecisionTreeLogisticRegression.fit/_fit_parallel/predict/
predict_proba/decision_path/get_leaves_index/tree_depth_ and the node class's fit (the real
recursion), predict, predict_proba, decision_path, enumerate_leaves_index, fit_improve
(pass-through branch) run with a clonable stub node classifier whose probability for (node, row)
is a SYMBOLIC real in [0,1] (the same symbol every time that node sees that row), concrete
labels (several label pairs, any order), symbolic max_depth/min_samples_* enumerated.  Every
way the rows can fall on either side of every node is explored (forks on p > threshold).
Oracle: an independent traversal of the built tree (root; go `above` iff p > threshold while
that child exists): predict_proba = the terminal node's pair, rows sum to one,
predict = classes_[p1 >= 0.5], decision_path marks exactly that path, node indices distinct and
< n_nodes_, get_leaves_index = sorted indices of nodes lacking a child, depth <= max_depth, each
child was trained on exactly the rows on its side.
"""
import numpy
from sklearn.base import BaseEstimator

from .. import harness, loader, sx

MOD = "vf.props.c10"
LABELS = [(0, 1), (7, 3), (-1, 5), ("no", "yes")]  # the last pair: strings of unequal length


class NodeClf(BaseEstimator):
    """clonable node classifier; P(node, row) is one symbol per (instance, row id)"""

    C = None
    table = None
    fits = None
    count = 0

    def __init__(self, alpha=1):
        self.alpha = alpha

    def fit(self, X, y, sample_weight=None):
        if not hasattr(self, "id_"):
            self.id_ = NodeClf.count
            NodeClf.count += 1
        NodeClf.fits.append((self, [_rid(r) for r in X[:, 0]], [int(v) for v in y], sample_weight))
        return self

    def p(self, row):
        """one probability per (node instance, EXACT feature value): a value changed by a cast is another row"""
        key = (self.id_, repr(float(row)))
        if key not in NodeClf.table:
            C = NodeClf.C
            name = f"p_{self.id_}_{_rid(row)}" if float(row) == float(numpy.float64(_rid(row)) + OFFSET) else f"p_{self.id_}_x{len(NodeClf.table)}"
            if C.symbolic:
                v = C.real(name)
                C.assume(v >= 0)
                C.assume(v <= 1)
            elif name in C.inputs:
                v = float(C.inputs[name])
            else:
                # a value the symbolic run never saw as such (e.g. after a lossy cast): a classifier may answer
                # anything there; answer the other side of the nearest known row, as an adversarial classifier would
                near = [(abs(float(k[1]) - float(row)), val) for k, val in NodeClf.table.items() if k[0] == self.id_]
                v = (1.0 - min(near)[1]) if near else 0.25 + 0.5 * ((self.id_ + _rid(row)) % 2)
            NodeClf.table[key] = v
        return NodeClf.table[key]

    def decision_function(self, X):
        # scores of another scale than the probabilities (SVC with Platt scaling, bagged votes...): nothing ties
        # their sign to p > 0.5, so nothing may be routed by them
        C = NodeClf.C
        out = []
        for r in X[:, 0]:
            key = ("df", getattr(self, "id_", -1), repr(float(r)))
            if key not in NodeClf.table:
                NodeClf.table[key] = C.real(f"df_{getattr(self, 'id_', 'x')}_{len(NodeClf.table)}") if C.symbolic else (-1.0) ** len(NodeClf.table) * 0.75
            out.append(NodeClf.table[key])
        return sx.sarr(out) if C.symbolic else numpy.array(out, dtype=float)

    def predict_proba(self, X):
        rows = [[1 - self.p(r), self.p(r)] for r in X[:, 0]]
        return sx.sarr(rows) if NodeClf.C.symbolic else numpy.array(rows, dtype=float).reshape(-1, 2)


OFFSET = 0.1  # row i has feature value i + 0.1: not exactly representable in float32


def _rid(v):
    return int(round(float(v) - OFFSET))


def nodes_of(t):
    out = []

    def rec(n):
        out.append(n)
        if n.above is not None:
            rec(n.above)
        if n.below is not None:
            rec(n.below)

    rec(t)
    return out


def scenario_for(cfg):
    m = loader.load("mlmodel.decision_tree_logreg")
    n, nq = cfg["n"], cfg["query"]
    lab = LABELS[cfg["labels"]]

    def scenario(C):
        NodeClf.C, NodeClf.table, NodeClf.fits, NodeClf.count = C, {}, [], 0
        ys = [C.choice(f"y{i}", 2) for i in range(n)]
        C.assume(len(set(ys)) == 2)
        y = numpy.array([lab[v] for v in ys])
        X = numpy.arange(n, dtype=float).reshape(-1, 1) + OFFSET
        est = m.DecisionTreeLogisticRegression(estimator=NodeClf(), max_depth=cfg["max_depth"], min_samples_leaf=cfg["min_samples_leaf"], min_samples_split=cfg["min_samples_split"], fit_improve_algo=cfg["algo"])
        r = est.fit(X, y)
        C.true(r is est, "fit-returns-self")
        classes = sorted(set(lab))
        C.true(list(est.classes_) == classes, "classes_=sorted-labels")
        nodes = nodes_of(est.tree_)
        idx = [nd.index for nd in nodes]
        C.true(len(set(idx)) == len(idx) and all(0 <= i < est.n_nodes_ for i in idx), "node-indices-distinct-and-below-n_nodes_", detail=(idx, est.n_nodes_))
        C.true(max(nd.depth for nd in nodes) <= cfg["max_depth"] and est.tree_depth_ == max(nd.depth for nd in nodes), "depth<=max_depth", detail=[nd.depth for nd in nodes])
        leaves = sorted(nd.index for nd in nodes if nd.above is None or nd.below is None)
        C.true(list(est.get_leaves_index()) == leaves, "get_leaves_index=nodes-lacking-a-child", detail=(list(est.get_leaves_index()), leaves))
        # each child was trained on exactly the rows on its side (with the binary target)
        def trained_rows(nd):
            recs = [f for f in NodeClf.fits if f[0] is nd.estimator]
            return recs[-1] if recs else None

        def check_children(nd, rows):
            rec = trained_rows(nd)
            C.true(rec is not None and rec[1] == rows, "node-trained-on-exactly-the-rows-routed-to-it", detail=(nd.index, None if rec is None else rec[1], rows))
            if rec is not None:
                C.true(rec[2] == [1 if y[i] == classes[1] else 0 for i in rows], "node-trained-on-the-binary-target")
            up = [i for i in rows if bool(nd.estimator.p(i + OFFSET) > nd.threshold)]
            down = [i for i in rows if i not in up]
            if nd.above is not None:
                check_children(nd.above, up)
            if nd.below is not None:
                check_children(nd.below, down)

        check_children(est.tree_, list(range(n)))
        # predictions on the training rows and on fresh rows
        Xq = numpy.arange(n + nq, dtype=float).reshape(-1, 1) + OFFSET
        shift = OFFSET
        if cfg.get("int_query"):
            # an integer-typed feature matrix (counts, indicators): other values than the training rows
            Xq, shift = numpy.arange(2, dtype=numpy.int64).reshape(-1, 1), 0
        nrows = len(Xq)
        proba = est.predict_proba(Xq)
        pred = est.predict(Xq)
        path = est.decision_path(Xq)
        C.true(proba.shape == (nrows, 2) and path.shape == (nrows, est.n_nodes_), "shapes")
        dense = numpy.asarray(path.todense())
        for i in range(nrows):
            nd = est.tree_
            want_path = [nd.index]
            while True:
                p = nd.estimator.p(i + shift)
                child = nd.above if bool(p > nd.threshold) else nd.below
                if child is None:
                    break
                nd = child
                want_path.append(nd.index)
            p = nd.estimator.p(i + shift)
            C.eq(proba[i, 1], p, "predict_proba=terminal-node's-probability", detail=i)
            C.eq(proba[i, 0] + proba[i, 1], 1, "probabilities-sum-to-one")
            C.true(pred[i] == (classes[1] if bool(p >= 0.5) else classes[0]), "predict=classes_[p1>=0.5]", detail=(i, pred[i]))
            C.true(sorted(numpy.nonzero(dense[i])[0].tolist()) == sorted(want_path), "decision_path=root-to-terminal-path", detail=(i, numpy.nonzero(dense[i])[0].tolist(), want_path))
        # a single row alone gets the same answer (per-row purity)
        one = est.predict_proba(Xq[nrows - 1 : nrows])
        C.eq(one[0, 1], proba[nrows - 1, 1], "batch==single-row")
        # history: get_leaves_index after a refit on the same instance describes the new tree
        est.set_params(max_depth=1)
        est.fit(X, y)
        C.true(list(est.get_leaves_index()) == [0] and est.tree_.above is None and est.tree_.below is None, "refit-with-max_depth=1-is-a-single-node", detail=list(est.get_leaves_index()))

    return scenario


def run_config(cfg):
    return harness.run_scenario(scenario_for(cfg), f"C10{cfg}", cfg=cfg, on_exception_label="raises")


def replay(cfg, inputs, label):
    return harness.replay_scenario(scenario_for(cfg), inputs, label, "raises")


def configs(tier):
    out = []
    for labels in range(3):
        for max_depth in (1, 2, 3) if tier == "quick" else (1, 2, 3, 4):
            for msl in (1, 2) if tier != "quick" else (1,):
                for mss in (2, 3):
                    for algo in ("auto", "none"):
                        if tier == "quick" and (labels, algo) not in ((0, "auto"), (1, "none"), (2, "auto")):
                            continue
                        if max_depth == 4 and ((msl, mss) != (1, 2) or labels != 0 or algo != "none"):
                            continue  # depth 4 multiplies the paths: one label pair, the least restrictive stopping rules
                        if max_depth == 3 and msl == 2 and labels != 0:
                            continue
                        out.append(dict(n=3, query=1, labels=labels, max_depth=max_depth, min_samples_leaf=msl, min_samples_split=mss, algo=algo))
                        if tier != "quick" and max_depth == 2 and msl == 1 and mss == 2 and labels == 0 and algo == "auto":
                            # 4 rows: every split of 4 rows at up to 3 nodes (the path count grows as 2^(rows x nodes))
                            out.append(dict(n=4, query=1, labels=labels, max_depth=max_depth, min_samples_leaf=msl, min_samples_split=mss, algo=algo))
    out.append(dict(n=3, query=1, labels=0, max_depth=2, min_samples_leaf=1, min_samples_split=2, algo="none", int_query=True))
    out.append(dict(n=3, query=1, labels=3, max_depth=2, min_samples_leaf=1, min_samples_split=2, algo="none"))
    return out


def run(ctx, rep):
    rep.add_functions("mlmodel.decision_tree_logreg", ["DecisionTreeLogisticRegression.fit", "DecisionTreeLogisticRegression._fit_parallel", "DecisionTreeLogisticRegression.predict", "DecisionTreeLogisticRegression.predict_proba", "DecisionTreeLogisticRegression.decision_path", "DecisionTreeLogisticRegression.get_leaves_index", "DecisionTreeLogisticRegression.tree_depth_", "_DecisionTreeLogisticRegressionNode.fit", "_DecisionTreeLogisticRegressionNode.fit_improve", "_DecisionTreeLogisticRegressionNode.predict", "_DecisionTreeLogisticRegressionNode.predict_proba", "_DecisionTreeLogisticRegressionNode.decision_path", "_DecisionTreeLogisticRegressionNode.enumerate_leaves_index", "_DecisionTreeLogisticRegressionNode.tree_depth_"])
    cfgs = configs(ctx.tier)
    rep.bounds = dict(train_rows=sorted(set(c["n"] for c in cfgs)), query_rows="train rows + 1 fresh row", max_depth=sorted(set(c["max_depth"] for c in cfgs)), min_samples_leaf=sorted(set(c["min_samples_leaf"] for c in cfgs)), min_samples_split=[2, 3], labels=[list(l) for l in LABELS], node_probabilities="symbolic in [0,1] per (node, row); every side assignment explored")
    rep.assumptions = [
        "node classifier = clonable stub (not a LinearClassifierMixin, so fit_improve returns its probabilities unchanged) with one symbolic probability per (node instance, row)",
        "rows are identified by a concrete id column; labels are concrete pairs in any order",
    ]
    rep.outside = ["fit_improve_algo='intercept_sort*' on linear models (exp over reals and an argsort over the scores)", "gamma / p1p2 (only used by that branch)", "strategy='perpendicular' (NotImplementedError by design)", "sample weights"]
    rep.absorb(harness.pmap(MOD, "run_config", cfgs), layer="scenarios")

    def twin(e):
        p = e.real("p")
        e.assume(p >= 0)
        e.assume(p <= 1)
        e.prove((p > 0.5) == (p >= 0.5), "twin")

    eng = sx.Engine(name="C10-twin")
    eng.explore(twin)
    rep.vacuity.append(dict(twin="p > 0.5 <=> p >= 0.5", refuted=bool(eng.cex)))
    if not eng.cex:
        rep.error("vacuity twin was not refuted")
