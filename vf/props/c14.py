"""C14 -- traceable vectorizers equal scikit-learn's, with n-grams kept as token tuples.

SX, differential: the real ``NGramsMixin._word_ngrams`` (through TraceableCountVectorizer and
TraceableTfidfVectorizer's thin overrides) and scikit-learn's own
``_VectorizerMixin._word_ngrams`` run on the same token list in the same symbolic run.  The
token at each position is a symbolic index into a small vocabulary (realised: repeated tokens
included), each word has a symbolic Bool "is a stop word" (the stop list is a frozenset model
answering from those Bools, and False for any non-str, as a real frozenset of strings does);
document length L and (min_n, max_n) are loop bounds (enumerated).  Obligations: every n-gram
of the override is a flat tuple of str, and [" ".join(g)] == scikit-learn's sequence.
Order lemma (CrossHair, short symbolic strings, all characters > ' '): tuple order == order of
the space-joined strings, so the sorted vocabulary_ columns coincide.
Reduction (stated, not solved): CountVectorizer/TfidfVectorizer compute the document-term
matrix from the analyzer's output sequence and the sorted vocabulary only.
"""
import itertools

import numpy

from .. import ch, harness, loader, sx

MOD = "vf.props.c14"
WORDS = ["aa", "bb", "cc"]


def _words(cfg):
    """vocabulary of the configuration; with case=True the second word is the first one capitalised (distinct
    tokens for scikit-learn when lowercase=False: a stop list is matched case-sensitively)"""
    return ["aa", "Aa", "cc"] if cfg.get("case") else WORDS


class StopSet:
    def __init__(self, flags):
        self.flags = flags

    def __contains__(self, w):
        if not isinstance(w, str):
            return False  # a frozenset of strings never contains a tuple
        return bool(self.flags[w])


def run_ngrams(cfg):
    st = loader.load("mlmodel.sklearn_text")
    from sklearn.feature_extraction.text import CountVectorizer, TfidfVectorizer

    L, mn, mx, V = cfg["L"], cfg["min_n"], cfg["max_n"], cfg["V"]
    cls, parent = (st.TraceableCountVectorizer, CountVectorizer) if cfg["cls"] == "count" else (st.TraceableTfidfVectorizer, TfidfVectorizer)

    words = _words(cfg)

    def h(e):
        idx = [e.realize(e.int(f"tok_{i}", 0, V - 1)) for i in range(L)]
        tokens = [words[i] for i in idx]
        stop = None
        if cfg["stop"]:
            flags = {w: e.bool(f"stop_{w}") for w in words[:V]}
            stop = StopSet(flags)
        opts = dict(binary=True) if cfg.get("binary") else {}
        vec = cls(ngram_range=(mn, mx), **opts)
        ours = vec._word_ngrams(list(tokens), stop)
        ref = parent(ngram_range=(mn, mx), **opts)._word_ngrams(list(tokens), stop)
        flat = all(isinstance(g, tuple) and len(g) >= 1 and all(isinstance(t, str) for t in g) for g in ours)
        e.prove(flat, "ngrams-are-flat-token-tuples")
        if flat:
            e.prove([" ".join(g) for g in ours] == list(ref), "same-ngram-sequence-as-scikit-learn")
        # history: the same vectorizer object with another n-gram range (set_params) must follow it
        rng2 = (1, 1) if (mn, mx) != (1, 1) else (1, 2)
        vec.set_params(ngram_range=rng2)
        ours2 = vec._word_ngrams(list(tokens), stop)
        ref2 = parent(ngram_range=rng2)._word_ngrams(list(tokens), stop)
        ok2 = all(isinstance(g, tuple) and all(isinstance(t, str) for t in g) for g in ours2)
        e.prove(ok2 and [" ".join(g) for g in ours2] == list(ref2), "same-ngram-sequence-after-set_params(ngram_range)")
        # history: the object was fitted before (scikit-learn leaves vocabulary_ in place until the next fit ends);
        # the analyzer of the new fit must not look at it
        vec3, ref3 = cls(ngram_range=(mn, mx)), parent(ngram_range=(mn, mx))
        vec3.vocabulary_, ref3.vocabulary_ = {(words[0],): 0}, {words[0]: 0}
        ours3 = vec3._word_ngrams(list(tokens), stop)
        ok3 = all(isinstance(g, tuple) and all(isinstance(t, str) for t in g) for g in ours3)
        e.prove(ok3 and [" ".join(g) for g in ours3] == list(ref3._word_ngrams(list(tokens), stop)), "same-ngram-sequence-on-a-previously-fitted-object(stale-vocabulary_)")

    eng = sx.Engine(name=f"C14{cfg}")
    eng.stop_on_cex = False
    eng.explore(h)
    viol = []
    for c in eng.cex:
        ok, obs = replay(cfg, c.inputs, c.label)
        sig = c.label + ("/stop_words" if cfg["stop"] else "")
        viol.append(harness.violation(c.label, sig, cfg, c.inputs, obs, ok))
    return dict(stats=eng.stats.as_dict(), violations=viol)


def _compare(cls, parent, corpus, **kw):
    a = cls(**kw)
    b = parent(**kw)
    try:
        Ma = a.fit_transform(corpus)
    except ValueError as ea:
        try:
            b.fit_transform(corpus)
        except ValueError:
            return None  # both refuse (empty vocabulary)
        return dict(problem=f"traceable raised {ea}")
    try:
        Mb = b.fit_transform(corpus)
    except ValueError as eb:
        return dict(problem=f"scikit-learn refuses the corpus ({eb}) but the traceable vectorizer accepts it", tr_vocabulary=[str(k) for k in sorted(a.vocabulary_, key=str)])
    if Ma.shape != Mb.shape or abs(Ma - Mb).sum() > 1e-12:
        return dict(problem="document-term matrices differ", traceable=Ma.toarray().tolist(), sklearn=Mb.toarray().tolist(), sk_vocabulary=sorted(b.vocabulary_), tr_vocabulary=[str(k) for k in sorted(a.vocabulary_, key=str)])
    for k, col in a.vocabulary_.items():
        if not (isinstance(k, tuple) and all(isinstance(t, str) for t in k)):
            return dict(problem="vocabulary_ key is not a flat tuple of tokens", key=repr(k))
        if b.vocabulary_.get(" ".join(k)) != col:
            return dict(problem="vocabulary_ column differs", key=repr(k), column=int(col), sklearn_column=b.vocabulary_.get(" ".join(k)))
    return None


def replay(cfg, inputs, label):
    st = loader.load("mlmodel.sklearn_text")
    from sklearn.feature_extraction.text import CountVectorizer, TfidfVectorizer

    cls, parent = (st.TraceableCountVectorizer, CountVectorizer) if cfg["cls"] == "count" else (st.TraceableTfidfVectorizer, TfidfVectorizer)
    if cfg.get("kind") == "lemma":
        return False, "lemma about Python's ordering: nothing to replay on the library"
    L, V = cfg["L"], cfg["V"]
    words = _words(cfg)
    doc = " ".join(words[int(inputs.get(f"tok_{i}", 0))] for i in range(L))
    stop = [w for w in words[:V] if inputs.get(f"stop_{w}")] if cfg["stop"] else None
    corpus = [doc, "aa bb cc aa", "", "cc"] + (["Aa aa Aa cc"] if cfg.get("case") else [])
    kw = dict(ngram_range=(cfg["min_n"], cfg["max_n"]))
    if cfg.get("case"):
        kw["lowercase"] = False
    if label.startswith("same-ngram-sequence-after-set_params"):
        # history on the real vectorizers: fit, set_params(ngram_range), fit again
        rng2 = (1, 1) if (cfg["min_n"], cfg["max_n"]) != (1, 1) else (1, 2)
        a, b = cls(**kw), parent(**kw)
        try:
            a.fit(corpus)
            a.set_params(ngram_range=rng2)
            b.set_params(ngram_range=rng2)
            Ma, Mb = a.fit_transform(corpus), b.fit_transform(corpus)
            if Ma.shape != Mb.shape or abs(Ma - Mb).sum() > 1e-12:
                return True, dict(history=f"fit with ngram_range={kw['ngram_range']}, set_params(ngram_range={rng2}), fit again", traceable_shape=list(Ma.shape), sklearn_shape=list(Mb.shape))
        except ValueError:
            pass
    if label.startswith("same-ngram-sequence-on-a-previously-fitted-object"):
        # history on the real vectorizers: fit on one corpus, fit again on another
        a, b = cls(**kw), parent(**kw)
        try:
            a.fit(["aa", "zz yy"])
            Ma, Mb = a.fit_transform(corpus), b.fit_transform(corpus)
            if Ma.shape != Mb.shape or abs(Ma - Mb).sum() > 1e-12 or len(a.vocabulary_) != len(b.vocabulary_):
                return True, dict(history="fit(['aa', 'zz yy']) then fit_transform(corpus) on the same object", corpus=corpus, traceable_shape=list(Ma.shape), sklearn_shape=list(Mb.shape), tr_vocabulary=[str(k) for k in sorted(a.vocabulary_, key=str)], sk_vocabulary=sorted(b.vocabulary_))
        except ValueError:
            pass
    if cfg["stop"]:
        kw["stop_words"] = stop
    for extra in ({}, {"binary": True}, {"binary": True} if cfg["cls"] == "count" else {"sublinear_tf": True}, {"max_features": 3}, {"min_df": 2}):
        d = _compare(cls, parent, corpus, **kw, **extra)
        if d:
            d.update(corpus=corpus, options={**kw, **extra})
            return True, d
    return False, "matrices and vocabulary agree"


LEMMA = '''
from typing import List


def order_lemma(a: List[str], b: List[str]) -> bool:
    """
    pre: 1 <= len(a) <= {K} and 1 <= len(b) <= {K}
    pre: all(1 <= len(s) <= {C} and all(c > ' ' for c in s) for s in a)
    pre: all(1 <= len(s) <= {C} and all(c > ' ' for c in s) for s in b)
    post: _ == True
    """
    return (tuple(a) < tuple(b)) == (" ".join(a) < " ".join(b))  # MARK-LEMMA


def order_lemma_twin(a: List[str], b: List[str]) -> bool:
    """
    pre: 1 <= len(a) <= {K} and 1 <= len(b) <= {K}
    pre: all(1 <= len(s) <= {C} for s in a)
    pre: all(1 <= len(s) <= {C} for s in b)
    post: _ == True
    """
    return (tuple(a) < tuple(b)) == (" ".join(a) < " ".join(b))  # MARK-TWIN
'''


def run_lemma(cfg):
    src = LEMMA.replace("{K}", str(cfg["K"])).replace("{C}", str(cfg["C"]))
    r = ch.run(src, f"c14_lemma_{cfg['K']}_{cfg['C']}", per_condition_timeout=cfg["timeout"])
    stats = sx.Stats()
    errors, vac = [], []
    res = r["results"]
    # function bodies: the line numbers crosshair reports are those of the def statements
    lines = sorted(res)
    verdicts = [res[k][0] for k in lines]
    stats.obligations = 1
    stats.labels.add("order-lemma(tuple order == joined-string order)")
    stats.queries = 1
    stats.solver_s = r["wall"]
    if len(lines) >= 2 and verdicts[0] == "confirmed":
        stats.discharged = 1
        stats.paths = 1
        stats.samples.append(dict(engine="CrossHair", obligation="order-lemma", verdict=res[lines[0]][1], bounds=dict(tokens_per_tuple=cfg["K"], chars_per_token=cfg["C"]), wall_s=round(r["wall"], 1)))
    else:
        errors.append(f"order lemma not confirmed by CrossHair: {[(k, res[k]) for k in lines]} :: {r['raw'][-300:]}")
    twin_ok = len(lines) >= 2 and verdicts[1] == "counterexample"
    vac.append(dict(twin="order lemma without the 'chars > space' precondition", refuted=twin_ok, message=res[lines[1]][1][:200] if len(lines) >= 2 else ""))
    if not twin_ok:
        errors.append("order-lemma twin was not refuted")
    return dict(stats=stats.as_dict(), violations=[], errors=errors, vacuity=vac)


def run_config(cfg):
    return run_lemma(cfg) if cfg.get("kind") == "lemma" else run_ngrams(cfg)


def configs(tier):
    out = []
    Lmax, nmax = (5, 3) if tier == "quick" else (7, 5)
    for L in range(0, Lmax + 1):
        for mn in range(1, nmax + 1):
            for mx in range(mn, nmax + 1):
                for stop in (False, True):
                    for cls in ("count", "tfidf"):
                        V = 2 if (tier == "quick" or L > 5) else 3
                        out.append(dict(L=L, min_n=mn, max_n=mx, stop=stop, cls=cls, V=V))
                        if not stop and L in (3, 5) and mn <= 2 <= mx:
                            out.append(dict(L=L, min_n=mn, max_n=mx, stop=stop, cls=cls, V=V, binary=True))  # binary=True: presence, not counts
                        if stop and cls == "count" and L <= 3:
                            out.append(dict(L=L, min_n=mn, max_n=mx, stop=stop, cls=cls, V=2, case=True))
    return out


def run(ctx, rep):
    rep.engine = "SX (differential) + CrossHair (order lemma)"
    rep.add_functions("mlmodel.sklearn_text", ["NGramsMixin._word_ngrams", "TraceableCountVectorizer._word_ngrams", "TraceableTfidfVectorizer._word_ngrams"])
    cfgs = configs(ctx.tier)
    rep.bounds = dict(tokens_per_document=f"0..{max(c['L'] for c in cfgs)}", ngram_range=f"1 <= min_n <= max_n <= {max(c['max_n'] for c in cfgs)}", vocabulary="2 (3 thorough, L<=5) distinct words, every assignment to positions", stop_words="None, or any subset of the vocabulary (symbolic Bools)", order_lemma="tuples of <= 2 tokens of <= 2 characters")
    rep.assumptions = [
        "reference: scikit-learn's own _VectorizerMixin._word_ngrams executed in the same symbolic run",
        "stop list = frozenset-of-str model (membership of a non-str is False)",
        "reduction: CountVectorizer/TfidfVectorizer build the matrix from the analyzer's n-gram sequence and the sorted vocabulary only; counterexamples are replayed end to end (fit_transform matrices, vocabulary_ columns; plain, binary/sublinear_tf, max_features, min_df)",
        "default tokenizer: tokens contain no space and only characters > ' ' (order lemma precondition)",
    ]
    rep.outside = ["custom analyzers/tokenizers producing tokens with spaces", "char n-grams", "lowercase/strip_accents preprocessing (done by scikit-learn before _word_ngrams)"]
    rep.absorb(harness.pmap(MOD, "run_config", cfgs), layer="n-gram assembly (SX)")
    lem = dict(kind="lemma", K=2, C=2, timeout=150 if ctx.quick else 400)
    rep.absorb(harness.pmap(MOD, "run_config", [lem]), layer="order lemma (CrossHair)")
    # concrete end-to-end validation on the docstring corpus
    st = loader.load("mlmodel.sklearn_text")
    from sklearn.feature_extraction.text import CountVectorizer, TfidfVectorizer

    corpus = ["This is the first document.", "This document is the second document.", "Is this the first document?", ""]
    for cls, parent in ((st.TraceableCountVectorizer, CountVectorizer), (st.TraceableTfidfVectorizer, TfidfVectorizer)):
        for rng in ((1, 1), (1, 2), (2, 3)):
            if _compare(cls, parent, corpus, ngram_range=rng) is None:
                rep.validated += 1
