"""C17 -- IntervalRegressor bootstraps over the whole training set, aggregates exactly.

(a) call contract for EVERY n (symbolic, unbounded) and alpha > 0: the real ``fit`` (with its
nested ``_fit_piecewise_estimator``) runs with X, y, w whose length is a symbolic int;
``numpy.random.randint`` is a stub recording its symbolic (low, high, size) and returning an
opaque index vector; z3 shows low == 0, high == n (every row eligible, none out of range; high
is exclusive) and |size - alpha*n| <= 1/2; X, y and w are indexed with the SAME index vector;
each of the n_estimators clones is fitted exactly once with those three.
(b) aggregation (m <= 4 members, <= 3 query rows, symbolic member predictions): predict is the
mean, predict_sorted rows are non-decreasing rearrangements of predict_all rows.
"""
from fractions import Fraction

import numpy
import z3
from sklearn.base import BaseEstimator

from .. import harness, loader, sx

MOD = "vf.props.c17"


class Rows:
    """caller array with a symbolic number of rows; indexing by a drawn index vector is recorded"""

    def __init__(self, name, n, cols=None):
        self.name, self.n, self.cols = name, n, cols

    @property
    def shape(self):
        return (self.n,) if self.cols is None else (self.n, self.cols)

    def __len__(self):
        raise sx.SXError("len() of a symbolic-length array")

    def __getitem__(self, idx):
        if isinstance(idx, Drawn):
            return Picked(self, idx)
        raise sx.SXError(f"unexpected index {idx!r} into caller data")

    def __setitem__(self, k, v):
        raise sx.SXError("write into caller data")


class Drawn:
    def __init__(self, low, high, size, k):
        self.low, self.high, self.size, self.k = low, high, size, k


class Picked:
    def __init__(self, src, idx):
        self.src, self.idx = src, idx


class RecEst(BaseEstimator):
    log = []

    def __init__(self, tag=0):
        self.tag = tag

    def fit(self, X, y, sample_weight=None):
        RecEst.log.append((self, X, y, sample_weight))
        return self


class SeqParallel:
    """joblib.Parallel stub: runs the delayed calls in task order"""

    def __init__(self, **kw):
        self.kw = kw

    def __call__(self, tasks):
        return [f(*a, **k) for f, a, k in tasks]


def seq_delayed(f):
    return lambda *a, **k: (f, a, k)


def _sym_int(v):
    """module-global int(): truncation of a symbolic real stays symbolic (no realisation)"""
    if isinstance(v, sx.SymReal):
        t = v.t
        return sx.SymInt(z3.If(t >= 0, z3.ToInt(t), -z3.ToInt(-t)))
    return int(v)


def run_fit(cfg):
    ir = loader.load("mlmodel.interval_regressor")
    m = cfg["m"]

    def h(e):
        n = e.int("n")
        e.assume(n >= 1)
        alpha = e.real("alpha")
        e.assume(alpha > 0)
        draws = []

        class NP:
            def __getattr__(self, k):
                return getattr(numpy, k)

            class random:  # noqa: N801
                @staticmethod
                def randint(low, high=None, size=None, dtype=int):
                    d = Drawn(low, high, size, len(draws))
                    draws.append(d)
                    return d

        X = Rows("X", n, 2)
        y = Rows("y", n)
        w = Rows("w", n) if cfg["weighted"] else None
        RecEst.log = []
        est = ir.IntervalRegressor(estimator=RecEst(), n_estimators=m, alpha=alpha)
        with harness.patched(ir, numpy=NP(), Parallel=SeqParallel, delayed=seq_delayed, int=_sym_int):
            r = est.fit(X, y, sample_weight=w)
        e.prove(r is est, "fit-returns-self")
        e.prove(len(draws) == m and len(RecEst.log) == m, "one-resample-per-estimator")
        e.prove(len(est.estimators_) == m and len(set(id(t[0]) for t in RecEst.log)) == m and all(t[0] is not est.estimator for t in RecEst.log), "n_estimators-distinct-clones-each-fitted-once")
        for d in draws:
            e.prove_eq(d.low, 0, "randint/low==0")
            e.prove_eq(d.high, n, "randint/high==n (every row eligible)")
            size = d.size
            e.prove(sx.SymBool(z3.And(sx._real(sx.term(size)) - alpha.t * z3.ToReal(n.t) <= Fraction(1, 2), alpha.t * z3.ToReal(n.t) - sx._real(sx.term(size)) <= Fraction(1, 2))), "size==round(alpha*n)")
        for k, (_, Xr, yr, sr) in enumerate(RecEst.log):
            ok = isinstance(Xr, Picked) and isinstance(yr, Picked) and Xr.src is X and yr.src is y and Xr.idx is yr.idx
            if cfg["weighted"]:
                ok = ok and isinstance(sr, Picked) and sr.src is w and sr.idx is Xr.idx
            else:
                ok = ok and sr is None
            e.prove(ok, "features-target-weight-of-a-drawn-row-kept-together")

    eng = sx.Engine(name=f"C17{cfg}")
    eng.stop_on_cex = False
    eng.explore(h)
    viol = []
    for c in eng.cex:
        ok, obs = replay_fit(cfg, c.inputs, c.label)
        viol.append(harness.violation(c.label, c.label, cfg, c.inputs, obs, ok))
    return dict(stats=eng.stats.as_dict(), violations=viol)


def replay_fit(cfg, inputs, label):
    """real library, real numpy RNG wrapped by a recorder, recording base regressor"""
    ir = loader.load("mlmodel.interval_regressor")
    n = max(1, int(inputs.get("n", 4)))
    n = min(n, 2000)
    alpha = float(inputs.get("alpha", 1))
    if not 0 < alpha * n < 1e6:
        alpha = 1.0
    calls = []

    class Rec(BaseEstimator):
        def fit(self, X, y, sample_weight=None):
            calls.append((numpy.array(X), numpy.array(y), None if sample_weight is None else numpy.array(sample_weight)))
            return self

        def predict(self, X):
            return numpy.zeros(len(X))

    real_randint = numpy.random.randint
    args = []

    class NP:
        def __getattr__(self, k):
            return getattr(numpy, k)

        class random:  # noqa: N801
            @staticmethod
            def randint(low, high=None, size=None, dtype=int):
                args.append((low, high, size))
                return real_randint(low, high, size)

    X = numpy.arange(n * 2.0).reshape(n, 2)
    y = numpy.arange(n) * 10.0
    w = numpy.arange(n) + 0.5 if cfg["weighted"] else None
    est = ir.IntervalRegressor(estimator=Rec(), n_estimators=cfg["m"], alpha=alpha)
    try:
        with harness.patched(ir, numpy=NP()):
            est.fit(X, y, sample_weight=w)
    except Exception as ex:
        return True, dict(n=n, alpha=alpha, raised=f"{type(ex).__name__}: {ex}")
    for low, high, size in args:
        if low != 0 or high != n:
            return True, dict(n=n, alpha=alpha, randint=dict(low=int(low), high=int(high), size=int(size)), expected=dict(low=0, high=n), note="high is exclusive: rows >= high are never drawn")
        if abs(size - alpha * n) > 0.5:
            return True, dict(n=n, alpha=alpha, size=int(size), expected=alpha * n)
    if len(calls) != cfg["m"]:
        return True, dict(fits=len(calls), expected=cfg["m"])
    for Xr, yr, sr in calls:
        rows = (Xr[:, 0] / 2).astype(int)
        if not (numpy.array_equal(yr, y[rows]) and numpy.array_equal(Xr, X[rows]) and (w is None or numpy.array_equal(sr, w[rows]))):
            return True, dict(problem="features, target and weight of a drawn row are not kept together")
    return False, "bootstrap contract holds"


def run_fit3(cfg):
    """3 training rows (concrete length), weights with an exact zero: a drawn row keeps its features,
    target and weight; every row is eligible; the sample size is round(alpha*n)"""
    ir = loader.load("mlmodel.interval_regressor")
    m, n = cfg["m"], 3

    def scenario(C):
        if C.symbolic:
            X, y = sx.cur().reals("X", n, 1), sx.cur().reals("y", n)
            wv = [sx.cur().real(f"w{i}") for i in range(n)]
            for v in wv:
                C.assume(v > 0)
        else:
            X = numpy.array([[float(C.inputs.get(f"X_{i}_0", i + 0.5))] for i in range(n)], dtype=object)
            y = numpy.array([float(C.inputs.get(f"y_{i}", 10.0 * i + 1)) for i in range(n)], dtype=object)
            wv = [float(C.inputs.get(f"w{i}", i + 1.0)) for i in range(n)]
        if cfg["weights"] == "zero-first":
            wv[0] = 0.0
        elif cfg["weights"] == "zero-middle":
            wv[1] = 0.0
        w = numpy.array(wv, dtype=object)
        draws = []

        class NP:
            def __getattr__(self, k):
                return getattr(numpy, k)

            class random:  # noqa: N801
                @staticmethod
                def randint(low, high=None, size=None, dtype=int):
                    k = len(draws)
                    C.true(int(low) == 0 and int(high) == n, "randint/every-row-eligible(low=0,high=n)", detail=(low, high))
                    idx = [int(low) + C.choice(f"draw{k}_{t}", max(1, int(high) - int(low))) for t in range(int(size))]
                    draws.append(idx)
                    return numpy.array(idx)

        RecEst.log = []
        est = ir.IntervalRegressor(estimator=RecEst(), n_estimators=m, alpha=1.0)
        with harness.patched(ir, numpy=NP(), Parallel=SeqParallel, delayed=seq_delayed):
            est.fit(X, y, sample_weight=w)
        C.true(len(draws) == m and all(len(d) == n for d in draws), "size==round(alpha*n)", detail=[len(d) for d in draws])
        for k, (_, Xr, yr, sr) in enumerate(RecEst.log):
            ok = len(Xr) == len(yr) == len(sr) == len(draws[k]) if k < len(draws) else False
            C.true(ok, "one-resample-per-estimator")
            if not ok:
                continue
            for t, i in enumerate(draws[k]):
                C.true(Xr[t, 0] is X[i, 0] and yr[t] is y[i] and (sr[t] is w[i] or (not sx.is_sym(w[i]) and sr[t] == w[i])), "features-target-weight-of-a-drawn-row-kept-together", detail=(k, t, i))

    return harness.run_scenario(scenario, f"C17{cfg}", cfg=cfg, sig=lambda l: l, on_exception_label="fit-raises")


class TruncArr(sx.SArr):
    """what an integer-dtype NumPy buffer does to the values stored in it: truncation"""

    def __setitem__(self, k, v):
        def tr(x):
            if isinstance(x, sx.SymReal):
                t = x.t
                return sx.SymInt(z3.If(t >= 0, z3.ToInt(t), -z3.ToInt(-t)))
            return int(x) if not sx.is_sym(x) else x

        if isinstance(v, numpy.ndarray):
            vv = numpy.empty(v.shape, dtype=object)
            for i in numpy.ndindex(v.shape):
                vv[i] = tr(v[i])
            v = vv
        else:
            v = tr(v)
        numpy.ndarray.__setitem__(self, k, v)


class _AggNP(sx.Conversions):
    def __getattr__(self, k):
        return getattr(numpy, k)

    def empty(self, shape, dtype=None, fill=None, **kw):
        a = numpy.empty(shape, dtype=object)
        if fill is not None:
            a[...] = fill
        if dtype is not None and numpy.dtype(dtype).kind in "iu":
            return a.view(TruncArr)
        return a.view(sx.SArr)

    def zeros(self, shape, dtype=None, **kw):
        return self.empty(shape, dtype, fill=0)

    def ones(self, shape, dtype=None, **kw):
        return self.empty(shape, dtype, fill=1)

    def full(self, shape, fill_value, dtype=None, **kw):
        return self.empty(shape, dtype, fill=fill_value)


class SymReg:
    def __init__(self, k):
        self.k = k

    def predict(self, X):
        n = len(X)
        if n <= 8:
            self.p = sx.cur().reals(f"p{self.k}", n)
        else:
            # a large batch: numbers everywhere (unsorted across the members) except the last two rows
            vals = [Fraction((self.k * 7 + r * 3) % 11, 2) for r in range(n - 2)] + list(sx.cur().reals(f"p{self.k}", 2))
            self.p = sx.sarr(vals)
        return self.p


def run_agg(cfg):
    ir = loader.load("mlmodel.interval_regressor")
    m, rows, qdtype = cfg["m"], cfg["rows"], cfg["qdtype"]

    def h(e):
        # the hyper-parameter may have been changed after the fit (set_params): the fitted members decide
        est = ir.IntervalRegressor(estimator=RecEst(), n_estimators=m + cfg.get("extra", 0), n_jobs=cfg.get("n_jobs"))
        est.estimators_ = [SymReg(k) for k in range(m)]
        Xq = e.reals("xq", rows, 1) if qdtype == "float64" else numpy.arange(rows, dtype=qdtype).reshape(rows, 1)
        with harness.patched(ir, numpy=_AggNP(), Parallel=SeqParallel, delayed=seq_delayed):
            allp = est.predict_all(Xq)
            members = [s.p for s in est.estimators_]
            mean = est.predict(Xq)
            members2 = [s.p for s in est.estimators_]
            srt = est.predict_sorted(Xq)
            members3 = [s.p for s in est.estimators_]
        e.prove(allp.shape == (rows, m) and srt.shape == (rows, m) and numpy.shape(mean) == (rows,), "shapes")
        for r in (range(rows) if rows <= 8 else sorted({0, 1, 1023, 1024, rows - 3, rows - 2, rows - 1})):
            for k in range(m):
                e.prove_eq(allp[r, k], members[k][r], "predict_all[:,k]==member k")
            e.prove_eq(mean[r] * m, sx.ssum([members2[k][r] for k in range(m)]), "predict==mean-of-members")
            for k in range(m - 1):
                e.prove(srt[r, k] <= srt[r, k + 1], "predict_sorted/non-decreasing")
            e.prove_eq(sx.ssum(list(srt[r])), sx.ssum([members3[k][r] for k in range(m)]), "predict_sorted/same-values(sum)")
            for k in range(m):
                e.prove(sx.SymBool(z3.Or(*[sx.term(srt[r, k] == members3[j][r]) for j in range(m)])), "predict_sorted/each-value-is-a-member's")
                e.prove(sx.SymBool(z3.Or(*[sx.term(srt[r, j] == members3[k][r]) for j in range(m)])), "predict_sorted/each-member-appears")
        # history: the model is fitted again (other members, one more of them) and asked about the SAME batch object
        m2 = m + 1
        est.estimators_ = [SymReg(100 + k) for k in range(m2)]
        with harness.patched(ir, numpy=_AggNP(), Parallel=SeqParallel, delayed=seq_delayed):
            allp2 = est.predict_all(Xq)
            mem = [getattr(s, "p", None) for s in est.estimators_]
            for s in est.estimators_:
                s.p = None
            mean2 = est.predict(Xq)
            mem2 = [getattr(s, "p", None) for s in est.estimators_]
        asked = all(v is not None for v in mem + mem2)
        e.prove(asked, "after-a-refit/the-new-members-are-asked(same-batch-object)")
        e.prove(allp2.shape == (rows, m2), "after-a-refit/shapes", detail=allp2.shape)
        if allp2.shape == (rows, m2) and asked:
            for r in (range(rows) if rows <= 8 else (0, rows - 1)):
                for k in range(m2):
                    e.prove_eq(allp2[r, k], mem[k][r], "after-a-refit/predict_all[:,k]==new-member-k(same-batch-object)")
                e.prove_eq(mean2[r] * m2, sx.ssum([mem2[k][r] for k in range(m2)]), "after-a-refit/predict==mean-of-the-new-members")

    eng = sx.Engine(name=f"C17{cfg}")
    eng.explore(h)
    viol = []
    for c in eng.cex[:1]:
        ok, obs = replay_agg(cfg, c.inputs, c.label)
        viol.append(harness.violation(c.label, c.label.split("[")[0], cfg, c.inputs, obs, ok))
    return dict(stats=eng.stats.as_dict(), violations=viol)


def replay_agg(cfg, inputs, label):
    ir = loader.load("mlmodel.interval_regressor")
    m, rows = cfg["m"], cfg["rows"]

    class Fixed:
        def __init__(self, vals):
            self.vals = numpy.array(vals, dtype=float)

        def predict(self, X):
            return self.vals[: len(X)].copy()

    P = numpy.array([[float(inputs.get(f"p{k}_{r}", k + 0.5 * r + 0.25)) for r in range(rows)] for k in range(m)])
    if rows > 8:
        # the large batch of the symbolic run: fixed numbers, the model's values on the last two rows
        P = numpy.array([[((k * 7 + r * 3) % 11) / 2 for r in range(rows - 2)] + [float(inputs.get(f"p{k}_{j}", m - k + j)) for j in range(2)] for k in range(m)])
    elif numpy.allclose(P, 0):
        P = numpy.array([[k + 0.5 * r + 0.25 for r in range(rows)] for k in range(m)])
    est = ir.IntervalRegressor(estimator=RecEst(), n_estimators=m + cfg.get("extra", 0), n_jobs=cfg.get("n_jobs"))
    est.estimators_ = [Fixed(P[k]) for k in range(m)]
    Xq = numpy.arange(rows, dtype=cfg["qdtype"]).reshape(rows, 1)
    try:
        mean = est.predict(Xq)
        srt = est.predict_sorted(Xq)
        allp = est.predict_all(Xq)
    except Exception as ex:
        return True, f"raised {type(ex).__name__}: {ex}"
    if label.startswith("after-a-refit"):
        P2 = numpy.vstack([P + 10, P[:1] + 20])
        est.estimators_ = [Fixed(P2[k]) for k in range(m + 1)]
        try:
            allp2, mean2 = est.predict_all(Xq), est.predict(Xq)
        except Exception as ex:
            return True, f"raised {type(ex).__name__}: {ex}"
        if allp2.shape != (rows, m + 1) or not numpy.allclose(allp2, P2.T) or not numpy.allclose(mean2, P2.mean(axis=0)):
            return True, dict(history="predict(Xq); members replaced as a new fit does; predict(Xq) with the same array object", predict_all=numpy.asarray(allp2).tolist(), expected=P2.T.tolist())
        return False, "second fit's members answer"
    if not numpy.allclose(allp, P.T) or not numpy.allclose(mean, P.mean(axis=0)) or not numpy.allclose(srt, numpy.sort(P.T, axis=1)):
        return True, dict(query_dtype=cfg["qdtype"], member_predictions=P.tolist(), predict=numpy.asarray(mean).tolist(), expected_mean=P.mean(axis=0).tolist(), predict_sorted=numpy.asarray(srt).tolist())
    return False, "aggregation exact"


def run_config(cfg):
    if cfg["kind"] == "fit3":
        return run_fit3(cfg)
    return run_fit(cfg) if cfg["kind"] == "fit" else run_agg(cfg)


def replay(cfg, inputs, label):
    if cfg["kind"] == "fit3":
        return True, "re-run ./check C17: the fit3 scenario replays itself in concrete mode"
    return replay_fit(cfg, inputs, label) if cfg["kind"] == "fit" else replay_agg(cfg, inputs, label)


def configs(tier):
    out = []
    for m in (1, 2, 3) if tier == "quick" else (1, 2, 3, 5):
        for weighted in (False, True):
            out.append(dict(kind="fit", m=m, weighted=weighted))
    # each query row forks over the orderings (with ties) of its m member predictions: 1, 3, 13, 75, 541
    shapes = [(m, r) for m in (1, 2, 3) for r in (1, 2)] if tier == "quick" else [(m, r) for m in (1, 2, 3) for r in (1, 2, 3)] + [(4, 1), (4, 2), (5, 1)]
    for m, rows in shapes:
        for qdtype in ("float64", "int64"):
            out.append(dict(kind="agg", m=m, rows=rows, qdtype=qdtype))
    out.append(dict(kind="agg", m=2, rows=2, qdtype="float64", extra=3))
    out.append(dict(kind="agg", m=3, rows=1, qdtype="float64", extra=-1))
    # n_jobs > 1 at prediction time (joblib = sequential map): members not a multiple of the jobs, fewer than the jobs
    out.append(dict(kind="agg", m=2, rows=1030, qdtype="float64"))  # beyond any row-blocking size in sight
    for m, nj in ((3, 2), (2, 3), (2, 2)):
        out.append(dict(kind="agg", m=m, rows=1, qdtype="float64", n_jobs=nj))
    for weights in ("zero-first", "zero-middle", "positive"):
        out.append(dict(kind="fit3", m=2, weights=weights))
    return out


def run(ctx, rep):
    rep.engine = "SX with symbolic row count (call contract) + SX (aggregation)"
    rep.add_functions("mlmodel.interval_regressor", ["IntervalRegressor.__init__", "IntervalRegressor.fit", "IntervalRegressor.fit._fit_piecewise_estimator", "IntervalRegressor.predict_all", "IntervalRegressor.predict", "IntervalRegressor.predict_sorted"])
    cfgs = configs(ctx.tier)
    rep.bounds = dict(n="UNBOUNDED (symbolic n >= 1) for the bootstrap contract", alpha="symbolic real > 0", n_estimators=sorted(set(c["m"] for c in cfgs)), query_rows="1..3", query_dtype=["float64", "int64"])
    rep.assumptions = [
        "numpy.random.randint stubbed: records (low, high, size) and returns an opaque index vector (NumPy's contract: uniform integers in [low, high))",
        "joblib Parallel/delayed stubbed by a sequential map in task order; base regressor = recording clonable stub",
        "the module's int() is shadowed by a symbolic truncation so that the sample size stays a term in n and alpha",
        "aggregation: member predictions symbolic reals; an integer-dtype buffer is modelled by truncation on store",
    ]
    rep.outside = ["uniformity/independence of the draws (NumPy's RNG)", "thread schedules of joblib", "float32 query batches (rounding)"]
    rep.absorb(harness.pmap(MOD, "run_config", cfgs), layer="bootstrap contract (all n) + aggregation")

    def twin(e):
        n = e.int("n")
        e.assume(n >= 1)
        e.prove_eq(n - 1, n, "twin")

    eng = sx.Engine(name="C17-twin")
    eng.explore(twin)
    rep.vacuity.append(dict(twin="n-1 == n", refuted=bool(eng.cex)))
    if not eng.cex:
        rep.error("vacuity twin was not refuted")
