"""Unit loader: gives harnesses the *real* mlinsights modules of /repo's working tree.

* ``mlinsights.mlmodel`` / ``mlinsights.mltree`` are pre-registered as empty package
  objects whose ``__path__`` is the real directory (their ``__init__`` imports every
  estimator, among which some fail on this scikit-learn), so that each submodule can be
  imported on its own -- "drive the unit, not the program".
* ``sklearn.utils._joblib`` (removed from scikit-learn) is re-created with its historical
  content (re-export of joblib.Parallel/delayed).
* the Cython extensions are compiled out of tree into /verif/.cache/ext-<sha>/ and put on
  the package ``__path__`` (never into /repo).
"""
import fcntl
import hashlib
import importlib
import os
import subprocess
import sys
import types

REPO = os.environ.get("VERIF_REPO", "/repo")
HERE = os.path.dirname(os.path.dirname(os.path.abspath(__file__)))
CACHE = os.path.join(HERE, ".cache")

PYX = [
    ("mlinsights/mlmodel", "_piecewise_tree_regression_common"),
    ("mlinsights/mlmodel", "piecewise_tree_regression_criterion"),
    ("mlinsights/mlmodel", "piecewise_tree_regression_criterion_fast"),
    ("mlinsights/mlmodel", "piecewise_tree_regression_criterion_linear"),
    ("mlinsights/mlmodel", "direct_blas_lapack"),
    ("mlinsights/mltree", "_tree_digitize"),
]


def repo_path(*parts):
    return os.path.join(REPO, *parts)


def file_sha(path):
    with open(path, "rb") as f:
        return hashlib.sha256(f.read()).hexdigest()


def sources_sha(paths):
    h = hashlib.sha256()
    for p in sorted(paths):
        h.update(p.encode())
        with open(p, "rb") as f:
            h.update(f.read())
    return h.hexdigest()


def _ext_sources():
    out = []
    for d, name in PYX:
        out.append(repo_path(d, name + ".pyx"))
        pxd = repo_path(d, name + ".pxd")
        if os.path.exists(pxd):
            out.append(pxd)
    return out


def ext_dir():
    return os.path.join(CACHE, "ext-" + sources_sha(_ext_sources())[:16])


_BUILD_SCRIPT = r"""
import os, sys, shutil
from setuptools import setup, Extension
from Cython.Build import cythonize
import numpy
src, names = sys.argv[1], sys.argv[2].split(',')
exts = []
for n in names:
    pkg, mod = n.rsplit('/', 1)
    exts.append(Extension(pkg.replace('/', '.') + '.' + mod, [os.path.join(pkg, mod + '.pyx')],
                          include_dirs=[numpy.get_include()],
                          define_macros=[('NPY_NO_DEPRECATED_API', 'NPY_1_7_API_VERSION')],
                          extra_compile_args=['-O1', '-w']))
sys.argv = [sys.argv[0], 'build_ext', '--inplace', '-j', '8']
setup(name='x', ext_modules=cythonize(exts, language_level=3, quiet=True,
      compiler_directives=dict(boundscheck=False, wraparound=False, cdivision=True)))
"""


def build_extensions(verbose=False):
    """Compile the .pyx of the working tree out of tree; returns the directory holding
    mlinsights/mlmodel/*.so and mlinsights/mltree/*.so (cached by source hash)."""
    d = ext_dir()
    ok = os.path.join(d, ".ok")
    if os.path.exists(ok):
        return d
    os.makedirs(CACHE, exist_ok=True)
    with open(os.path.join(CACHE, "ext.lock"), "w") as lock:
        fcntl.flock(lock, fcntl.LOCK_EX)
        if os.path.exists(ok):
            return d
        import shutil

        shutil.rmtree(d, ignore_errors=True)
        for sub, name in PYX:
            os.makedirs(os.path.join(d, sub), exist_ok=True)
            for ext in (".pyx", ".pxd"):
                p = repo_path(sub, name + ext)
                if os.path.exists(p):
                    shutil.copy(p, os.path.join(d, sub, name + ext))
        # package markers so that cimports between the pyx resolve
        for sub in ("mlinsights", "mlinsights/mlmodel", "mlinsights/mltree"):
            open(os.path.join(d, sub, "__init__.py"), "w").close()
        with open(os.path.join(d, "_build.py"), "w") as f:
            f.write(_BUILD_SCRIPT)
        names = ",".join(f"{s}/{n}" for s, n in PYX)
        r = subprocess.run(
            [sys.executable, "_build.py", d, names],
            cwd=d,
            capture_output=True,
            text=True,
        )
        if r.returncode != 0:
            raise RuntimeError("extension build failed:\n" + r.stdout[-3000:] + r.stderr[-3000:])
        shutil.rmtree(os.path.join(d, "build"), ignore_errors=True)
        for sub, name in PYX:
            c = os.path.join(d, sub, name + ".c")
            if os.path.exists(c):
                os.remove(c)
        # the markers must not shadow the real packages
        for sub in ("mlinsights", "mlinsights/mlmodel", "mlinsights/mltree"):
            os.remove(os.path.join(d, sub, "__init__.py"))
        open(ok, "w").close()
        # drop stale builds
        for e in os.listdir(CACHE):
            if e.startswith("ext-") and os.path.join(CACHE, e) != d:
                shutil.rmtree(os.path.join(CACHE, e), ignore_errors=True)
    return d


def install(with_ext=False):
    """Registers the package shells; idempotent."""
    if REPO not in sys.path:
        sys.path.insert(0, REPO)
    if "sklearn.utils._joblib" not in sys.modules:
        import joblib

        m = types.ModuleType("sklearn.utils._joblib")
        m.Parallel = joblib.Parallel
        m.delayed = joblib.delayed
        m.__verif_shim__ = True
        sys.modules["sklearn.utils._joblib"] = m
        import sklearn.utils

        sklearn.utils._joblib = m
    import mlinsights  # real top-level package (only metadata)

    extd = build_extensions() if with_ext else None
    for sub in ("mlmodel", "mltree"):
        name = "mlinsights." + sub
        mod = sys.modules.get(name)
        if mod is None or not getattr(mod, "__verif_shell__", False):
            mod = types.ModuleType(name)
            mod.__verif_shell__ = True
            mod.__path__ = [repo_path("mlinsights", sub)]
            mod.__package__ = name
            sys.modules[name] = mod
            setattr(mlinsights, sub, mod)
        if extd is not None:
            p = os.path.join(extd, "mlinsights", sub)
            if p not in mod.__path__:
                mod.__path__.append(p)
    return extd


def load(modname, with_ext=False, fresh=False):
    """Imports mlinsights.<modname> from the working tree."""
    install(with_ext=with_ext)
    full = "mlinsights." + modname
    if fresh and full in sys.modules:
        del sys.modules[full]
    return importlib.import_module(full)


def source_of(modname):
    p = repo_path("mlinsights", *modname.split(".")) + ".py"
    return p


def functions_sha(modname):
    p = source_of(modname)
    if not os.path.exists(p):
        p = p[:-3] + ".pyx"
    return {"file": os.path.relpath(p, REPO), "sha256": file_sha(p)[:16]}
