"""SXL -- SX with symbolic array lengths.

Arrays whose first dimension is a symbolic int.  Inputs are uninterpreted functions of the
row index; ``numpy.empty/full`` with a symbolic row count returns a write-log array; a
slice with symbolic bounds is normalised with Python's exact clamping rules into
(start, length) terms; a slice assignment appends to the log and emits NumPy's shape rule
(len(src) == len(dst) or len(src) == 1, otherwise NumPy raises ValueError) as a proof
obligation; reading cell (r, c) at a symbolic row r is an If-chain over the log.
Column counts are concrete.  Logic: LIA + UF (+ LRA for the cell values).

A cell is a pair (kind, value): kind 0 = number, 1 = NaN, 2 = never written.
"""
import z3

from . import sx

K_VAL, K_NAN, K_UNINIT = 0, 1, 2


def _t(x):
    if isinstance(x, sx.SymInt):
        return x.t
    if isinstance(x, int):
        return z3.IntVal(x)
    if isinstance(x, z3.ArithRef):
        return x
    raise sx.SXError(f"SXL: unsupported index {x!r}")


def _zmax(a, b):
    return z3.If(a >= b, a, b)


def _zmin(a, b):
    return z3.If(a <= b, a, b)


def norm_slice(s, L):
    """Python slice clamping on a sequence of length L (terms). step must be None/1."""
    if s.step not in (None, 1):
        raise sx.SXError("SXL: slice step")

    def nb(x, default):
        if x is None:
            return default
        x = _t(x)
        return z3.If(x < 0, _zmax(x + L, z3.IntVal(0)), _zmin(x, L))

    r0 = nb(s.start, z3.IntVal(0))
    r1 = nb(s.stop, L)
    return z3.simplify(r0), z3.simplify(_zmax(r1 - r0, z3.IntVal(0)))


def _cslice(s, n):
    """concrete slice on concrete length"""
    if isinstance(s, slice):
        a, b, st = s.indices(n)
        if st != 1:
            raise sx.SXError("SXL: column slice step")
        return a, max(b - a, 0)
    raise sx.SXError(f"SXL: column key {s!r}")


class DType:
    kind = "f"

    def __repr__(self):
        return "sxl-real"


DTYPE = DType()


class LBase:
    """2-D internally: rows (term) x cols (int); is1d marks a vector."""

    dtype = DTYPE

    def __init__(self, rows, cols, is1d):
        self.rows = rows if isinstance(rows, z3.ExprRef) else z3.IntVal(rows)
        self.cols = cols
        self.is1d = is1d

    @property
    def shape(self):
        r = z3.simplify(self.rows)
        r = r.as_long() if z3.is_int_value(r) else sx.SymInt(r)
        return (r,) if self.is1d else (r, self.cols)

    @property
    def ndim(self):
        return 1 if self.is1d else 2

    def __len__(self):
        r = self.shape[0]
        if isinstance(r, sx.SymInt):
            # len() must answer a Python int: the symbolic length has to be enumerated.  With a fallback bound set
            # by the harness (engine.len_bound = (length term, largest value)) the run degrades from "every n" to
            # "every n up to the bound" and says so (engine.remarks); without one this is an engine error.
            e = sx.cur()
            lb = getattr(e, "len_bound", None)
            if lb is not None:
                if not getattr(e, "_len_bound_used", False):
                    e._len_bound_used = True
                    e.assume(sx.SymInt(lb[0]) <= lb[1])
                    e.remarks.add(f"len() of a symbolic-length array is taken by the code under test: lengths enumerated up to {lb[1]} instead of unbounded")
                return e.realize(r, limit=4096)
        return int(r)

    def _key(self, key):
        """-> (r0, rlen, c0, clen, squeeze_col)"""
        if isinstance(key, tuple):
            if self.is1d or len(key) != 2:
                raise sx.SXError(f"SXL: key {key!r}")
            rk, ck = key
        else:
            rk, ck = key, None
        if not isinstance(rk, slice):
            raise sx.SXError(f"SXL: row key {rk!r} (only slices are modelled)")
        r0, rlen = norm_slice(rk, self.rows)
        if ck is None:
            return r0, rlen, 0, self.cols, False
        if isinstance(ck, slice):
            c0, clen = _cslice(ck, self.cols)
            return r0, rlen, c0, clen, False
        ck = int(ck)
        if ck < 0:
            ck += self.cols
        if not 0 <= ck < self.cols:
            raise IndexError(f"index {ck} is out of bounds for axis 1 with size {self.cols}")
        return r0, rlen, ck, 1, True

    def __getitem__(self, key):
        r0, rlen, c0, clen, sq = self._key(key)
        return LView(self, r0, rlen, c0, clen, self.is1d or sq)

    def __setitem__(self, key, value):
        raise sx.SXError("SXL: write into a read-only array (caller data!)")

    def read(self, r, c):
        raise NotImplementedError


class LInput(LBase):
    """caller data: cell (r, c) = F(r, c), a finite number."""

    def __init__(self, name, rows, cols=1, is1d=True):
        super().__init__(_t(rows), cols, is1d)
        self.name = name
        self.f = z3.Function(name, z3.IntSort(), z3.IntSort(), z3.RealSort())

    def read(self, r, c):
        return z3.IntVal(K_VAL), self.f(r, z3.IntVal(c))

    def at(self, r, c=0):
        return self.f(_t(r), z3.IntVal(c))


class LView(LBase):
    def __init__(self, base, r0, rlen, c0, clen, is1d):
        super().__init__(rlen, clen, is1d)
        self.base, self.r0, self.c0 = base, r0, c0

    def read(self, r, c):
        return self.base.read(self.r0 + r, self.c0 + c)

    def __setitem__(self, key, value):
        raise sx.SXError("SXL: write through a view is not modelled")


class LLog(LBase):
    def __init__(self, rows, cols, is1d, default_kind):
        super().__init__(_t(rows), cols, is1d)
        self.default_kind = default_kind
        self.log = []

    def __setitem__(self, key, value):
        e = sx.cur()
        r0, rlen, c0, clen, sq = self._key(key)
        if isinstance(value, LBase):
            if value.is1d:
                if not (sq or self.is1d):
                    raise sx.SXError("SXL: 1-D source into a 2-D region (row broadcast) is not modelled")
                m = value.rows
            else:
                if sq or self.is1d:
                    raise ValueError("could not broadcast 2-D input into a 1-D region")
                if value.cols != clen and value.cols != 1:
                    raise ValueError(f"could not broadcast input array from shape (n,{value.cols}) into shape (n,{clen})")
                m = value.rows
            # NumPy's rule, as a proof obligation: a mismatch is a ValueError in the real code
            e.prove(z3.Or(m == rlen, m == 1), "numpy-shape-rule", detail=f"assign rows {z3.simplify(m)} into {z3.simplify(rlen)}")
            self.log.append((r0, rlen, c0, clen, value, m))
        else:
            self.log.append((r0, rlen, c0, clen, value, None))

    def read(self, r, c):
        if not 0 <= c < self.cols:
            raise sx.SXError("SXL: column out of range")
        k, v = z3.IntVal(self.default_kind), z3.RealVal(0)
        for r0, rlen, c0, clen, src, m in self.log:  # later writes wrap earlier ones
            if not (c0 <= c < c0 + clen):
                continue
            cond = z3.And(r >= r0, r < r0 + rlen)
            if isinstance(src, LBase):
                sr = z3.If(m == 1, z3.IntVal(0), r - r0)
                sc = 0 if src.cols == 1 else c - c0
                sk, sv = src.read(sr, sc)
            else:
                if isinstance(src, float) and src != src:
                    sk, sv = z3.IntVal(K_NAN), z3.RealVal(0)
                elif sx.is_sym(src):
                    sk, sv = z3.IntVal(K_VAL), sx._real(sx.term(src))
                else:
                    sk, sv = z3.IntVal(K_VAL), sx._real(sx._num(src))
            k = z3.If(cond, sk, k)
            v = z3.If(cond, sv, v)
        return k, v


def cell_eq(a, b):
    (ka, va), (kb, vb) = a, b
    return z3.And(ka == kb, z3.Implies(ka == K_VAL, va == vb))


def is_value(cell, val):
    k, v = cell
    return z3.And(k == K_VAL, v == val)


def is_nan(cell):
    return cell[0] == K_NAN


class NumpyProxy:
    """module-global ``numpy`` for code run under SXL: empty/full with a symbolic row count
    build write-log arrays; everything else is real NumPy."""

    def __init__(self, real):
        self._real = real

    def __getattr__(self, name):
        return getattr(self._real, name)

    def _mk(self, shape, kind):
        if isinstance(shape, tuple):
            rows = shape[0]
            cols = int(shape[1]) if len(shape) > 1 else 1
            is1d = len(shape) == 1
        else:
            rows, cols, is1d = shape, 1, True
        e = sx.cur()
        # numpy raises for a negative dimension
        if isinstance(rows, sx.SymInt):
            e.prove(rows.t >= 0, "numpy-nonnegative-dimension")
        elif rows < 0:
            raise ValueError("negative dimensions are not allowed")
        if cols < 0:
            raise ValueError("negative dimensions are not allowed")
        return LLog(rows, cols, is1d, kind)

    def empty(self, shape, dtype=None, **kw):
        out = self._mk(shape, K_UNINIT)
        if isinstance(dtype, DType):
            out.dtype = dtype  # which input's dtype the buffer was given (C20: tables take the series' dtype)
        return out

    def full(self, shape, fill_value, dtype=None, **kw):
        if isinstance(fill_value, float) and fill_value != fill_value:
            out = self._mk(shape, K_NAN)
            if isinstance(dtype, DType):
                out.dtype = dtype
            return out
        raise sx.SXError("SXL: numpy.full with a non-NaN fill is not modelled")
