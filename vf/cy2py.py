"""CY2PY -- lowers the repository's Cython split criteria to Python so that SX can execute them.

The .pyx is parsed with Cython's own parser (Cython.Compiler.TreeFragment.parse_from_strings)
and re-emitted as Python for the subset these files use.  Every binary/conditional expression
is emitted fully parenthesised.  An unknown node type raises Cy2PyError: a change to the .pyx
can never be silently mistranslated.  The result is validated on every run against the compiled
extension (see vf/props/c09.py).

Lowering rules: cdef class -> class (``__cinit__`` -> ``__init__``); cdef/def functions -> def;
cdef declarations -> assignments; typecasts -> operand; a local whose address is taken becomes
a one-element cell (reads become ``x[0]``); ``&self.a`` -> attribute reference; pointer
parameters are cells/lists (``p[0]`` works on both); calloc -> list of zeros; free -> no-op;
NULL -> None; NAN -> float('nan'); cimports and non-static decorators dropped; f-strings ->
a constant; cython_lapack.dgelss -> hook supplied by the harness.
"""
from Cython.Compiler import ExprNodes, Nodes
from Cython.Compiler.TreeFragment import parse_from_strings
from Cython.Compiler.Visitor import TreeVisitor


class Cy2PyError(Exception):
    pass


PRELUDE = '''
NAN = float("nan")


class _AttrRef:
    def __init__(self, obj, name):
        self.obj, self.name = obj, name

    def __getitem__(self, i):
        return getattr(self.obj, self.name)

    def __setitem__(self, i, v):
        setattr(self.obj, self.name, v)


class _ElemRef:
    def __init__(self, arr, i):
        self.arr, self.i = arr, i

    def __getitem__(self, k):
        return self.arr[self.i + k]

    def __setitem__(self, k, v):
        self.arr[self.i + k] = v


def _div(a, b):
    from fractions import Fraction as _F

    if isinstance(b, (int, _F)) and not isinstance(b, bool) and b == 0:
        # C double division: 0/0 is NaN, x/0 an infinity (no exception)
        az = a
        if hasattr(a, "t"):
            import z3 as _z3

            s_ = _z3.simplify(a.t)
            az = s_.as_fraction() if _z3.is_rational_value(s_) or _z3.is_int_value(s_) else None
        if az is None:
            raise ZeroDivisionError("symbolic numerator over a concrete zero: sign unknown")
        return NAN if az == 0 else (float("inf") if az > 0 else float("-inf"))
    if isinstance(a, (int, _F)) and isinstance(b, (int, _F)) and not isinstance(a, bool) and not isinstance(b, bool):
        return _F(a) / _F(b)
    return a / b


def calloc(n, size):
    return [0.0] * int(n)


def free(p):
    return None


class Criterion:
    """the attributes the scikit-learn base class holds"""
    start = pos = end = 0
    n_outputs = n_samples = 0
    weighted_n_samples = weighted_n_node_samples = weighted_n_left = weighted_n_right = 0.0
    y = sample_weight = sample_indices = None

    def __init__(self, *a, **k):
        pass


class cython_lapack:
    dgelss = None


class cython:
    @staticmethod
    def boundscheck(v):
        return lambda f: f
'''


class _AddrTaken(TreeVisitor):
    def __init__(self):
        super().__init__()
        self.names = set()

    def visit_AmpersandNode(self, node):
        if isinstance(node.operand, ExprNodes.NameNode):
            self.names.add(node.operand.name)
        self.visitchildren(node)

    def visit_Node(self, node):
        self.visitchildren(node)


class Lowerer:
    def __init__(self):
        self.cells = set()
        self.lines = []

    # ---------------------------------------------------------------- expressions
    def e(self, n):
        m = getattr(self, "e_" + type(n).__name__, None)
        if m is None:
            raise Cy2PyError(f"no rule for expression node {type(n).__name__} at {getattr(n, 'pos', None)}")
        return m(n)

    def e_NameNode(self, n):
        if n.name in self.cells:
            return f"{n.name}[0]"
        return n.name

    def e_AttributeNode(self, n):
        return f"{self.e(n.obj)}.{n.attribute}"

    def e_IndexNode(self, n):
        idx = n.index
        if isinstance(idx, ExprNodes.TupleNode):
            inner = ", ".join(self.e(a) for a in idx.args)
        else:
            inner = self.e(idx)
        return f"{self.e(n.base)}[{inner}]"

    def e_SliceNode(self, n):
        f = lambda x: "" if x is None or isinstance(x, ExprNodes.NoneNode) else self.e(x)  # noqa: E731
        s = f"{f(n.start)}:{f(n.stop)}"
        if n.step is not None and not isinstance(n.step, ExprNodes.NoneNode):
            s += ":" + self.e(n.step)
        return s

    def e_IntNode(self, n):
        return str(int(str(n.value).rstrip("UuLl"), 0))

    def e_FloatNode(self, n):
        v = float(str(n.value))
        if v == int(v):
            return str(int(v))  # 0. / 1. literals: exact in the real-number model (no float creeps into the terms)
        return repr(v)

    def e_BoolNode(self, n):
        return "True" if n.value else "False"

    def e_NoneNode(self, n):
        return "None"

    def e_NullNode(self, n):
        return "None"

    def e_UnicodeNode(self, n):
        return repr(str(n.value))

    e_StringNode = e_UnicodeNode
    e_IdentifierStringNode = e_UnicodeNode

    def e_BytesNode(self, n):
        return repr(bytes(n.value))

    def e_JoinedStrNode(self, n):
        return repr("<formatted message>")

    def _bin(self, n):
        return f"({self.e(n.operand1)} {n.operator} {self.e(n.operand2)})"

    e_AddNode = e_SubNode = e_MulNode = e_ModNode = e_PowNode = e_IntBinopNode = _bin

    def e_DivNode(self, n):
        # all divisions in these files are between C doubles: exact rational division in the real-number model
        return f"_div({self.e(n.operand1)}, {self.e(n.operand2)})"

    def e_NumBinopNode(self, n):
        return self._bin(n)

    def e_BoolBinopNode(self, n):
        return f"({self.e(n.operand1)} {n.operator} {self.e(n.operand2)})"

    def e_UnaryMinusNode(self, n):
        return f"(-{self.e(n.operand)})"

    def e_UnaryPlusNode(self, n):
        return f"(+{self.e(n.operand)})"

    def e_NotNode(self, n):
        return f"(not {self.e(n.operand)})"

    def e_PrimaryCmpNode(self, n):
        s = f"{self.e(n.operand1)} {n.operator.replace('_', ' ')} {self.e(n.operand2)}"
        c = n.cascade
        while c is not None:
            s += f" {c.operator.replace('_', ' ')} {self.e(c.operand2)}"
            c = c.cascade
        return f"({s})"

    def e_CondExprNode(self, n):
        return f"({self.e(n.true_val)} if {self.e(n.condition)} else {self.e(n.false_val)})"

    def e_TypecastNode(self, n):
        return self.e(n.operand)

    def e_AmpersandNode(self, n):
        op = n.operand
        if isinstance(op, ExprNodes.NameNode):
            if op.name not in self.cells:
                raise Cy2PyError(f"address of non-cell {op.name}")
            return op.name
        if isinstance(op, ExprNodes.AttributeNode):
            return f"_AttrRef({self.e(op.obj)}, {op.attribute!r})"
        if isinstance(op, ExprNodes.IndexNode):
            return f"_ElemRef({self.e(op.base)}, {self.e(op.index)})"
        raise Cy2PyError(f"address of {type(op).__name__}")

    def e_SizeofVarNode(self, n):
        return "8"

    e_SizeofTypeNode = e_SizeofVarNode

    def e_SimpleCallNode(self, n):
        return f"{self.e(n.function)}({', '.join(self.e(a) for a in n.args)})"

    def e_GeneralCallNode(self, n):
        args = [self.e(a) for a in n.positional_args.args]
        kw = n.keyword_args
        if kw is not None:
            for item in kw.key_value_pairs:
                args.append(f"{str(item.key.value)}={self.e(item.value)}")
        return f"{self.e(n.function)}({', '.join(args)})"

    def e_TupleNode(self, n):
        inner = ", ".join(self.e(a) for a in n.args)
        return f"({inner}{',' if len(n.args) == 1 else ''})"

    def e_ListNode(self, n):
        return "[" + ", ".join(self.e(a) for a in n.args) + "]"

    def e_DictNode(self, n):
        return "{" + ", ".join(f"{self.e(i.key)}: {self.e(i.value)}" for i in n.key_value_pairs) + "}"

    def e_ImportNode(self, n):
        return f"__import__({self.e(n.module_name)})"

    # ---------------------------------------------------------------- statements
    def out(self, ind, text):
        self.lines.append("    " * ind + text)

    def s(self, n, ind):
        m = getattr(self, "s_" + type(n).__name__, None)
        if m is None:
            raise Cy2PyError(f"no rule for statement node {type(n).__name__} at {getattr(n, 'pos', None)}")
        m(n, ind)

    def body(self, n, ind):
        k = len(self.lines)
        self.s(n, ind)
        if len(self.lines) == k:
            self.out(ind, "pass")

    def s_StatListNode(self, n, ind):
        for st in n.stats:
            self.s(st, ind)

    def s_ExprStatNode(self, n, ind):
        if isinstance(n.expr, (ExprNodes.UnicodeNode, ExprNodes.BytesNode)) or type(n.expr).__name__ in ("StringNode",):
            return  # docstring
        self.out(ind, self.e(n.expr))

    def s_SingleAssignmentNode(self, n, ind):
        rhs = n.rhs
        if isinstance(rhs, ExprNodes.ImportNode):
            self.out(ind, f"import {str(rhs.module_name.value)} as {self.e(n.lhs)}" if self.e(n.lhs) != str(rhs.module_name.value) else f"import {str(rhs.module_name.value)}")
            return
        self.out(ind, f"{self.e(n.lhs)} = {self.e(rhs)}")

    def s_CascadedAssignmentNode(self, n, ind):
        self.out(ind, " = ".join(self.e(l) for l in n.lhs_list) + " = " + self.e(n.rhs))

    def s_InPlaceAssignmentNode(self, n, ind):
        self.out(ind, f"{self.e(n.lhs)} {n.operator}= {self.e(n.rhs)}")

    def s_PassStatNode(self, n, ind):
        self.out(ind, "pass")

    def s_ReturnStatNode(self, n, ind):
        self.out(ind, "return" if n.value is None else f"return {self.e(n.value)}")

    def s_RaiseStatNode(self, n, ind):
        self.out(ind, "raise" if n.exc_type is None else f"raise {self.e(n.exc_type)}")

    def s_IfStatNode(self, n, ind):
        for i, c in enumerate(n.if_clauses):
            self.out(ind, f"{'if' if i == 0 else 'elif'} {self.e(c.condition)}:")
            self.body(c.body, ind + 1)
        if n.else_clause is not None:
            self.out(ind, "else:")
            self.body(n.else_clause, ind + 1)

    def s_ForInStatNode(self, n, ind):
        self.out(ind, f"for {self.e(n.target)} in {self.e(n.iterator.sequence)}:")
        self.body(n.body, ind + 1)
        if n.else_clause is not None:
            self.out(ind, "else:")
            self.body(n.else_clause, ind + 1)

    def s_WhileStatNode(self, n, ind):
        self.out(ind, f"while {self.e(n.condition)}:")
        self.body(n.body, ind + 1)

    def s_CImportStatNode(self, n, ind):
        pass

    s_FromCImportStatNode = s_CImportStatNode

    def s_FromImportStatNode(self, n, ind):
        mod = str(n.module.module_name.value)
        names = ", ".join(name if name == self.e(tgt) else f"{name} as {self.e(tgt)}" for name, tgt in n.items)
        if mod.startswith("."):
            return  # relative imports of sibling .pyx are resolved by the harness
        self.out(ind, f"from {mod} import {names}")

    def s_CVarDefNode(self, n, ind):
        if self.in_class_body:
            return
        for d in n.declarators:
            name, default = self._declarator(d)
            if name in self.cells:
                self.out(ind, f"{name} = [{self.e(default) if default is not None else 0}]")
            elif default is not None:
                self.out(ind, f"{name} = {self.e(default)}")

    def _declarator(self, d):
        default = getattr(d, "default", None)
        while not isinstance(d, Nodes.CNameDeclaratorNode):
            d = d.base
            if getattr(d, "default", None) is not None:
                default = d.default
        return d.name, default

    def _args(self, args):
        out = []
        for a in args:
            d = a.declarator
            name, _ = self._declarator(d)
            if not name:  # an argument written without a type: "def f(self, x)": base_type carries the name
                name = a.base_type.name
            if a.default is not None:
                out.append(f"{name}={self.e(a.default)}")
            else:
                out.append(name)
        return out

    def _function(self, name, args, body, ind, decorators=(), fallthrough=None):
        for d in decorators:
            self.out(ind, "@" + d)
        if name == "__cinit__":
            name = "__init__"
        self.out(ind, f"def {name}({', '.join(args)}):")
        saved_cells, saved_cls = self.cells, self.in_class_body
        at = _AddrTaken()
        at.visit(body)
        self.cells = set(at.names)
        self.in_class_body = False
        k = len(self.lines)
        self.s(body, ind + 1)
        if len(self.lines) == k:
            self.out(ind + 1, "pass")
        if fallthrough is not None:
            self.out(ind + 1, f"return {fallthrough}")  # a non-void cdef function falling off its end returns 0 in C
        self.cells, self.in_class_body = saved_cells, saved_cls

    def s_CFuncDefNode(self, n, ind):
        d = n.declarator
        while not isinstance(d, Nodes.CFuncDeclaratorNode):
            d = d.base
        name, _ = self._declarator(d.base)
        rtype = getattr(n.base_type, "name", None)
        is_ptr = isinstance(n.declarator, Nodes.CPtrDeclaratorNode)
        self._function(name, self._args(d.args), n.body, ind, fallthrough=None if (rtype == "void" and not is_ptr) else "0")

    def s_DefNode(self, n, ind):
        decs = []
        for d in n.decorators or []:
            txt = self.e(d.decorator)
            if txt == "staticmethod":
                decs.append(txt)
        self._function(n.name, self._args(n.args), n.body, ind, decs)

    def s_CClassDefNode(self, n, ind):
        bases = [self.e(b) for b in n.bases.args] if n.bases is not None else []
        self.out(ind, f"class {n.class_name}({', '.join(bases)}):")
        saved = self.in_class_body
        self.in_class_body = True
        k = len(self.lines)
        self.s(n.body, ind + 1)
        if len(self.lines) == k:
            self.out(ind + 1, "pass")
        self.in_class_body = saved

    in_class_body = False


def lower(source, name):
    tree = parse_from_strings(name, source)
    L = Lowerer()
    L.s(tree.body, 0)
    return "\n".join(L.lines) + "\n"


def lower_modules(sources):
    """sources: list of (name, pyx text) in dependency order -> one python module text"""
    parts = [PRELUDE]
    for name, src in sources:
        parts.append(f"\n# ---- lowered from {name}\n")
        parts.append(lower(src, name))
    return "\n".join(parts)
