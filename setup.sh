#!/bin/sh
# Builds the overlay venv used by every check (offline, idempotent, under a lock).
set -e
HERE="$(cd "$(dirname "$0")" && pwd)"
VENV="$HERE/.venv"
mkdir -p "$HERE/.cache"
exec 9>"$HERE/.cache/setup.lock"
flock 9
if [ -x "$VENV/bin/python" ] && "$VENV/bin/python" -c "import z3, crosshair, numpy, sklearn" 2>/dev/null; then
  exit 0
fi
rm -rf "$VENV"
/venv/bin/python -m venv "$VENV"
SP="$VENV/lib/python3.12/site-packages"
echo "import site; site.addsitedir('/venv/lib/python3.12/site-packages')" > "$SP/_venv_overlay.pth"
PIP_NO_INDEX=1 "$VENV/bin/pip" install -q --no-index --find-links /opt/veriftools/wheels crosshair-tool z3-solver >/dev/null
"$VENV/bin/python" -c "import z3, crosshair, numpy, sklearn"
